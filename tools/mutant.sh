#!/bin/bash
# tools/mutant.sh <patch.diff> <property>...   — sensitivity run on a scratch copy
# Applies the patch to a scratch worktree of /repo, runs the quick checks of the
# given properties against it (VERIF_REPO), prints one line per property and
# removes everything again. Never touches /repo's working tree or /verif's evidence.
set -u
patch="$(readlink -f "$1")"; shift
id="$$"
wt="/tmp/mut-wt-$id"; vd="/tmp/mut-vd-$id"
git -C /repo worktree add -q --detach "$wt" HEAD || exit 2
trap 'git -C /repo worktree remove --force "$wt" >/dev/null 2>&1; rm -rf "$vd"; rm -rf /tmp/verif-c06-mut-$id' EXIT
if ! git -C "$wt" apply "$patch"; then echo "PATCH-DOES-NOT-APPLY $patch"; exit 2; fi
(cd "$wt" && GOFLAGS=-mod=mod GOPROXY=off GOSUMDB=off GOTOOLCHAIN=local go build ./... ) || { echo "MUTANT-DOES-NOT-BUILD"; exit 2; }
mkdir -p "$vd"
cp -r /verif/sim /verif/stages /verif/run.sh /verif/known_findings.txt "$vd/"
[ -d /verif/livesim ] && cp -r /verif/livesim "$vd/"
for p in "$@"; do
  out=$(VERIF_REPO="$wt" VERIF_TMP="/tmp/verif-c06-mut-$id" ${VERIF_TIER_CMD:-} "$vd/run.sh" "$p" "${MUT_TIER:-quick}" 2>&1); rc=$?
  n=$(echo "$out" | grep -c '^VIOLATION')
  echo "[$p] rc=$rc violations=$n $(echo "$out" | grep -A1 '^VIOLATION' | grep clause= | cut -c1-220 | head -3 | tr '\n' ' ')"
  [ "$rc" = 2 ] && echo "$out" | tail -5
done

#!/bin/bash
# tools/keep_mutant.sh <mutant-dir> <seeded-id> <property> [extra props to run]
# Confirms the change (tools/confirm_mutant.sh), runs the property's quick check against it and
# stores it under /verif/seeded/<seeded-id>/ with meta.json.
set -u
d="$1"; id="$2"; prop="$3"; shift 3
out=$(/verif/tools/confirm_mutant.sh "$d" "$prop" "$@" 2>&1)
echo "$out" | cut -c1-400
conf=$(echo "$out" | grep -m1 '^{"dir"')
dst="/verif/seeded/$id"; mkdir -p "$dst"
cp "$d/patch.diff" "$dst/patch.diff"
for f in "$d"/*_test.go "$d"/*.go "$d"/README.md; do [ -f "$f" ] && cp "$f" "$dst/$(basename "$f" | sed 's/_test\.go$/_test.go.txt/; s/^main\.go$/main.go.txt/')"; done
python3 - "$dst" "$id" "$prop" "$conf" "$out" <<'PY'
import json,sys,re
dst,id_,prop,conf,out=sys.argv[1:6]
try: c=json.loads(conf)
except Exception: c={}
res={}
for m in re.finditer(r'^\[(C\d+)\] rc=(\d+) violations=(\d+)[ \t]*(.*)$', out, re.M):
    res[m.group(1)]={"exit":int(m.group(2)),"violations":int(m.group(3)),"clauses":sorted(set(re.findall(r'clause=(C\d+\.[\w-]+)', m.group(4))))}
needs=""
try:
    rd=open(dst+"/README.md").read()
    needs=" ".join(rd.split())[:900]
except Exception: pass
meta={"id":id_,"breaks_property":prop,"source":"independent sub-agent given only the property text and a scratch worktree",
 "needs_to_manifest":needs,
 "confirmed":{"patch_applies_to_repo_HEAD":c.get("applies"),"existing_suite_failures_with_patch":c.get("suite_failures"),"baseline_failures":"TestAugmentErr/9-no_I/O_access only (runs as root)","demo_without_patch":c.get("demo_without_patch"),"demo_with_patch":c.get("demo_with_patch")},
 "what_was_run":["tools/confirm_mutant.sh (scratch worktree of /repo HEAD: demo without patch, git apply, go build, full suite, demo with patch)","tools/mutant.sh (quick check of the property against the patched scratch copy via VERIF_REPO)"],
 "checks":res}
json.dump(meta,open(dst+"/meta.json","w"),indent=1)
print("kept",id_,json.dumps(res))
PY

#!/bin/bash
# tools/recheck_all.sh [jobs]  — re-run the quick check of every kept seeded change against the current
# framework (2 at a time by default) and refresh meta.json; prints a summary of those not detected.
jobs="${1:-2}"
cd /verif/seeded || exit 2
ls -d */ | sed 's|/||' | xargs -P "$jobs" -I{} /verif/tools/recheck_seeded.sh {} > /tmp/recheck_all.log 2>&1
python3 - <<'PY'
import json,glob,os
miss=[]; tot=0
for f in sorted(glob.glob('/verif/seeded/*/meta.json')):
    m=json.load(open(f)); tot+=1
    det=any(v.get('violations',0)>0 for v in m.get('checks',{}).values() if isinstance(v,dict))
    if not det: miss.append((m['id'], m.get('status','')[:60]))
print("seeded:",tot,"not detected by its own property's quick check:",len(miss))
for x in miss: print("  ",x)
PY

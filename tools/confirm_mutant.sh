#!/bin/bash
# tools/confirm_mutant.sh <mutant-dir> [props...]
# Confirms a seeded change independently in a scratch worktree of /repo HEAD:
#  1. the demonstration passes WITHOUT the patch, 2. the patch applies and builds,
#  3. the existing suite's failures are unchanged (baseline: TestAugmentErr only),
#  4. the demonstration FAILS with the patch. Then runs the given checks (quick)
# against the patched copy. Prints a JSON line with the outcome. Cleans up.
set -u
export GOFLAGS=-mod=mod GOPROXY=off GOSUMDB=off GOTOOLCHAIN=local
d="$(readlink -f "$1")"; shift
id="$$"; wt="/tmp/cm-wt-$id"
git -C /repo worktree add -q --detach "$wt" HEAD || exit 2
trap 'git -C /repo worktree remove --force "$wt" >/dev/null 2>&1' EXIT
demo=$(ls "$d"/*_test.go 2>/dev/null | head -1)
pkg=""; if [ -n "$demo" ]; then
  pk=$(grep -m1 '^package ' "$demo" | awk '{print $2}')
  case "$pk" in stack|stack_test) pkg=stack;; internal) pkg=internal;; webstack|webstack_test) pkg=stack/webstack;; main) pkg="";; esac
fi
runs=""; [ -n "$demo" ] && runs=$(grep -o '^func Test[A-Za-z0-9_]*' "$demo" | sed 's/func //' | paste -sd'|')
rdemo() { ( cd "$wt" && cp "$demo" "$pkg/zz_demo_test.go" && ${DEMO_GO:-go} test ${DEMO_FLAGS:-} -vet=off -count=1 -run "^($runs)\$" ./$pkg >/tmp/cm-demo-$id.log 2>&1; rc=$?; rm -f "$pkg/zz_demo_test.go"; exit $rc ); }
demo_clean="n/a"; demo_mut="n/a"
if [ -n "$pkg" ]; then rdemo && demo_clean=pass || demo_clean=fail; fi
if ! git -C "$wt" apply "$d/patch.diff" 2>/tmp/cm-apply-$id.log; then
  if ! git -C "$wt" apply --3way "$d/patch.diff" 2>>/tmp/cm-apply-$id.log; then echo "{\"dir\":\"$d\",\"applies\":false}"; cat /tmp/cm-apply-$id.log; rm -f /tmp/cm-*-$id.log; exit 1; fi
fi
( cd "$wt" && go build ./... ) >/dev/null 2>&1 || { echo "{\"dir\":\"$d\",\"builds\":false}"; exit 1; }
fails=$( cd "$wt" && go test -vet=off -count=1 ./... 2>&1 | grep -E '^--- FAIL|^\s+--- FAIL' | sed 's/ (.*//' | sort | paste -sd';')
if [ -n "$pkg" ]; then rdemo && demo_mut=pass || demo_mut=fail; fi
echo "{\"dir\":\"$d\",\"applies\":true,\"suite_failures\":\"$fails\",\"demo_without_patch\":\"$demo_clean\",\"demo_with_patch\":\"$demo_mut\"}"
[ "$demo_mut" = fail ] && tail -5 /tmp/cm-demo-$id.log | cut -c1-300
( cd "$wt" && git diff ) > /tmp/cm-patch-$id.diff
rm -f /tmp/cm-demo-$id.log /tmp/cm-apply-$id.log
if [ $# -gt 0 ]; then /verif/tools/mutant.sh /tmp/cm-patch-$id.diff "$@"; fi
rm -f /tmp/cm-patch-$id.diff

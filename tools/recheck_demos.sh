#!/bin/bash
# tools/recheck_demos.sh [ids...] — for every seeded change: does its patch, applied to /repo HEAD,
# still make its own demonstration fail? (A patch whose hunk context is ambiguous can land in another
# place once /repo's line numbers move, and then changes nothing.) Prints one line per change:
#   <id> demo=fail|pass|n/a [toolchain/flags tried]
# Works in one scratch worktree under /tmp and removes it.
set -u
export GOFLAGS=-mod=mod GOPROXY=off GOSUMDB=off GOTOOLCHAIN=local
wt="/tmp/rd-wt-$$"
git -C /repo worktree add -q --detach "$wt" HEAD || exit 2
trap 'git -C /repo worktree remove --force "$wt" >/dev/null 2>&1' EXIT
ids=("$@"); [ ${#ids[@]} -eq 0 ] && ids=($(ls /verif/seeded))
for id in "${ids[@]}"; do
  d="/verif/seeded/$id"
  demo=$(ls "$d"/*_test.go.txt 2>/dev/null | head -1)
  git -C "$wt" checkout -q -- . ; git -C "$wt" clean -fdq
  if ! git -C "$wt" apply "$d/patch.diff" 2>/dev/null; then echo "$id patch-does-not-apply"; continue; fi
  if [ -z "$demo" ]; then echo "$id demo=n/a (no test-file demonstration)"; continue; fi
  pk=$(grep -m1 '^package ' "$demo" | awk '{print $2}')
  case "$pk" in stack|stack_test) pkg=stack;; internal) pkg=internal;; webstack|webstack_test) pkg=stack/webstack;; main) pkg=cmd/pp;; *) echo "$id demo=n/a (package $pk)"; continue;; esac
  runs=$(grep -o '^func Test[A-Za-z0-9_]*' "$demo" | sed 's/func //' | paste -sd'|')
  cp "$demo" "$wt/$pkg/zz_demo_test.go"
  res=pass; how=""
  for try in "go|" "go1.26.8|" "go|-race" "go1.26.8|-race"; do
    g=${try%%|*}; f=${try##*|}
    [ -n "$f" ] && export CGO_ENABLED=1 || unset CGO_ENABLED
    out=$(cd "$wt" && timeout 600 $g test $f -vet=off -count=1 -run "^($runs)\$" ./$pkg 2>&1); rc=$?
    if echo "$out" | grep -q "build failed\|cannot find package\|build constraints exclude\|no test files\|testing: warning: no tests to run"; then continue; fi
    if [ $rc -ne 0 ]; then res=fail; how="$g $f"; break; fi
  done
  echo "$id demo=$res $how"
done

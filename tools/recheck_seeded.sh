#!/bin/bash
# tools/recheck_seeded.sh <seeded-id>...  — re-run the property's quick check against a kept seeded change
# (patch applied to a scratch worktree of /repo HEAD) and refresh meta.json's "checks".
set -u
for id in "$@"; do
  d="/verif/seeded/$id"; prop="${id%%-*}"
  out=$(/verif/tools/mutant.sh "$d/patch.diff" "$prop" 2>&1)
  python3 - "$d" "$prop" "$out" <<'PY'
import json,sys,re
d,prop,out=sys.argv[1:4]
m=json.load(open(d+"/meta.json"))
res={}
for mm in re.finditer(r'^\[(C\d+)\] rc=(\d+) violations=(\d+)[ \t]*(.*)$', out, re.M):
    res[mm.group(1)]={"exit":int(mm.group(2)),"violations":int(mm.group(3)),"clauses":sorted(set(re.findall(r'clause=(C\d+\.[\w-]+)', mm.group(4))))}
if "PATCH-DOES-NOT-APPLY" in out: res={"error":"patch does not apply to /repo HEAD"}
prev=m.get("checks")
if prev and prev!=res: m.setdefault("checks_history",[]).append(prev)
m["checks"]=res
json.dump(m,open(d+"/meta.json","w"),indent=1)
print(d.split("/")[-1], json.dumps(res))
PY
done

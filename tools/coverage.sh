#!/bin/bash
# tools/coverage.sh — statement coverage of package stack reached by the simulated runs
# (a reach measure for the workloads, not a check). Prints per-function percentages
# for reader.go / context.go / bucket.go / stack.go / html.go and the uncovered blocks of reader.go.
set -u
export GOFLAGS=-mod=mod GOPROXY=off GOSUMDB=off GOTOOLCHAIN=local CGO_ENABLED=0
T=$(mktemp -d); trap 'rm -rf "$T"' EXIT
cd /verif/sim || exit 2
go build -cover -coverpkg=github.com/maruel/panicparse/v2/stack,verifsim/cmd/vcheck -o "$T/vcheck" ./cmd/vcheck || exit 2
mkdir "$T/cov"
for p in C02 C07 C09 C10 C11 C14; do GOCOVERDIR="$T/cov" "$T/vcheck" worker $p quick "${VERIF_SEED:-1}" 0 16 "${RUNS:-600}" > /dev/null || exit 2; done
go tool covdata textfmt -i="$T/cov" -o "$T/cov.txt" || exit 2
go tool cover -func="$T/cov.txt" | grep -E "stack/(reader|context|bucket|stack|html)\.go|^total"
echo "--- uncovered blocks of reader.go:"
grep "stack/reader.go" "$T/cov.txt" | awk '$NF==0'

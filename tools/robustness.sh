#!/bin/bash
# tools/robustness.sh <seed> [jobs] — is the detection of the kept seeded changes a matter of luck with
# one seed? Re-runs the quick check of every seeded change's own property with VERIF_SEED=<seed>
# (scratch copies, nothing in /verif is written) and prints the ones that are not detected.
seed="${1:?seed}"; jobs="${2:-3}"
log="/tmp/robust-$seed.log"; : > "$log"
cd /verif/seeded || exit 2
ls -d */ | sed 's|/||' | xargs -P "$jobs" -I{} bash -c 'id={}; prop="${id%%-*}"; echo "$id $(VERIF_SEED='"$seed"' /verif/tools/mutant.sh /verif/seeded/$id/patch.diff $prop 2>&1 | grep "^\[C" | cut -c1-160)"' >> "$log" 2>&1
echo "seed $seed: not detected:"; grep "violations=0" "$log"

#!/bin/bash
# /verif/run.sh <property> quick|thorough     run one check (rebuilds from the current /repo tree)
# /verif/run.sh replay <file>                 re-execute a replay file in a fresh process
# /verif/run.sh setup                         warm the build caches (MANIFEST.setup_cmd)
# Exit: 0 held / known findings only, 1 VIOLATION, 2 infrastructure (build, watchdog, determinism).
set -u
V="$(cd "$(dirname "$0")" && pwd)"
export VERIF_DIR="$V"
REPO="${VERIF_REPO:-/repo}"
export VERIF_REPO="$REPO"
export GOFLAGS=-mod=mod GOPROXY=off GOSUMDB=off GOTOOLCHAIN=local GOTRACEBACK=all
export CGO_ENABLED=0
B="$V/build"
mkdir -p "$B" "$V/evidence" "$V/replays"

modfile() { # writes $B/harness.mod (+ .sum) pointing at $REPO
  cat > "$B/harness.mod.tmp.$$" <<EOF
module verifsim

go 1.23.0

require github.com/maruel/panicparse/v2 v2.0.0

replace github.com/maruel/panicparse/v2 => $REPO
EOF
  mv "$B/harness.mod.tmp.$$" "$B/harness.mod"
  cp "$REPO/go.sum" "$B/harness.sum.tmp.$$" && mv "$B/harness.sum.tmp.$$" "$B/harness.sum"
}

build_vcheck() { # $1 = output
  modfile
  (cd "$V/sim" && go build -modfile="$B/harness.mod" -o "$1" ./cmd/vcheck) || { echo "INFRASTRUCTURE: build of vcheck failed" >&2; exit 2; }
}

case "${1:-}" in
  setup)
    build_vcheck "$B/vcheck"
    [ -x "$V/stages/setup.sh" ] && { "$V/stages/setup.sh" || exit 2; }
    exit 0 ;;
  replay)
    f="${2:?file}"
    p=$(python3 -c "import json,sys; print(json.load(open(sys.argv[1]))['property'])" "$f") || exit 2
    if [ -x "$V/stages/$p.sh" ]; then exec "$V/stages/$p.sh" replay "$f"; fi
    build_vcheck "$B/vcheck.replay.$$"
    "$B/vcheck.replay.$$" replay "$f"; rc=$?
    rm -f "$B/vcheck.replay.$$"
    exit $rc ;;
  C[0-9][0-9]*)
    P="$1"; TIER="${2:-${VERIF_TIER:-quick}}"
    export VERIF_TIER="$TIER"
    if [ -x "$V/stages/$P.sh" ]; then exec "$V/stages/$P.sh" "$TIER"; fi
    mkdir -p "$B/$P"
    build_vcheck "$B/$P/vcheck"
    ulimit -v 33554432 2>/dev/null
    exec "$B/$P/vcheck" run "$P" "$TIER" ;;
  *)
    echo "usage: $0 <property> quick|thorough | replay <file> | setup" >&2; exit 2 ;;
esac

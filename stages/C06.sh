#!/bin/bash
# C06: determinism under simulator-chosen map iteration orders (mapsim build).
. "$(dirname "$0")/common.sh"
case "${1:-quick}" in
  replay)
    build_mapsim "$B/C06"
    build_clisim "$B/C06/clisim.test"
    export VERIF_CLISIM_BIN="$B/C06/clisim.test" VERIF_PP_MAPSIM="$B/C06/pp"
    exec "$B/C06/vcheck" replay "$2" ;;
  quick|thorough)
    build_mapsim "$B/C06"
    build_clisim "$B/C06/clisim.test"
    export VERIF_PP_MAPSIM="$B/C06/pp" VERIF_CLISIM_BIN="$B/C06/clisim.test"
    exec "$B/C06/vcheck" run C06 "$1" ;;
esac

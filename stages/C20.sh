#!/bin/bash
# C20: livesim — the Go runtime inside a testing/synctest bubble (go1.26.8), plus
# free-running -race stages on both toolchains (labelled, not simulated).
. "$(dirname "$0")/common.sh"
mkdir -p "$B/C20"
modfile
GO26="${GO26:-go1.26.8}"
(cd "$V/sim" && $GO26 test -c -modfile="$B/harness.mod" -o "$B/C20/livesim.test" ./livesim) || infra "go1.26.8 build of livesim failed"
case "${1:-quick}" in
  replay)
    LIVESIM_MODE=replay LIVESIM_CASE="$2" "$B/C20/livesim.test" -test.run='^TestReplay$' -test.v | grep -v -e '^=== ' -e '^--- ' -e '^PASS' -e '^FAIL' -e '^ok'
    exit "${PIPESTATUS[0]}" ;;
  quick|thorough)
    (cd "$V/sim" && CGO_ENABLED=1 $GO26 test -c -race -modfile="$B/harness.mod" -o "$B/C20/livesim-race-go1.26.test" ./livesim) || infra "go1.26.8 -race build of livesim failed"
    (cd "$V/sim" && CGO_ENABLED=1 go test -c -race -modfile="$B/harness.mod" -o "$B/C20/livesim-race-go1.23.test" ./livesim) || infra "go1.23 -race build of livesim failed"
    export LIVESIM_RACE_BINS="$B/C20/livesim-race-go1.26.test:$B/C20/livesim-race-go1.23.test"
    export VERIF_TIER="$1"
    [ "$1" = quick ] && export VERIF_RUNS="${VERIF_RUNS:-400}"
    LIVESIM_MODE=orchestrate exec "$B/C20/livesim.test" ;;
esac

#!/bin/bash
# C20: livesim — the Go runtime inside a testing/synctest bubble (go1.26.8), plus
# free-running -race stages on both toolchains (labelled, not simulated).
. "$(dirname "$0")/common.sh"
mkdir -p "$B/C20"
modfile
GO26="${GO26:-go1.26.8}"
# seam at the handler's capture of the dump: runtime.Stack -> verifStack (hook), applied with -overlay
mkdir -p "$B/C20/ov"
sed 's/runtime\.Stack(/verifStack(/g' "$REPO/stack/webstack/webstack.go" > "$B/C20/ov/webstack.go"
grep -q 'verifStack(' "$B/C20/ov/webstack.go" || infra "no runtime.Stack call found in webstack.go (seam cannot be placed)"
cat > "$B/C20/ov/verif_stackhook.go" <<EOF
// Present only in simulation builds (go build -overlay); never in /repo.
package webstack

import "runtime"

// VerifStackHook, when set, runs right before the handler captures the dump.
var VerifStackHook func()

func verifStack(buf []byte, all bool) int {
	if h := VerifStackHook; h != nil {
		h()
	}
	return runtime.Stack(buf, all)
}

var _ = runtime.Version
EOF
cat >> "$B/C20/ov/webstack.go" <<EOF

var _ = runtime.Version
EOF
cat > "$B/C20/ov/overlay.json" <<EOF
{"Replace": {"$REPO/stack/webstack/webstack.go": "$B/C20/ov/webstack.go", "$REPO/stack/webstack/verif_stackhook.go": "$B/C20/ov/verif_stackhook.go"}}
EOF
OV="-overlay $B/C20/ov/overlay.json"
(cd "$V/sim" && $GO26 test -c -vet=off $OV -modfile="$B/harness.mod" -o "$B/C20/livesim.test" ./livesim) || infra "go1.26.8 build of livesim failed"
case "${1:-quick}" in
  replay)
    LIVESIM_MODE=replay LIVESIM_CASE="$2" "$B/C20/livesim.test" -test.run='^TestReplay$' -test.v | grep -v -e '^=== ' -e '^--- ' -e '^PASS' -e '^FAIL' -e '^ok'
    exit "${PIPESTATUS[0]}" ;;
  quick|thorough)
    (cd "$V/sim" && CGO_ENABLED=1 $GO26 test -c -vet=off $OV -race -modfile="$B/harness.mod" -o "$B/C20/livesim-race-go1.26.test" ./livesim) || infra "go1.26.8 -race build of livesim failed"
    (cd "$V/sim" && CGO_ENABLED=1 go test -c -vet=off $OV -race -modfile="$B/harness.mod" -o "$B/C20/livesim-race-go1.23.test" ./livesim) || infra "go1.23 -race build of livesim failed"
    [ -n "${VERIF_BUILD_ONLY:-}" ] && exit 0
    export LIVESIM_RACE_BINS="$B/C20/livesim-race-go1.26.test:$B/C20/livesim-race-go1.23.test"
    export VERIF_TIER="$1"
    [ "$1" = quick ] && export VERIF_RUNS="${VERIF_RUNS:-400}"
    LIVESIM_MODE=orchestrate exec "$B/C20/livesim.test" ;;
esac

# sourced by the stage scripts
set -u
V="${VERIF_DIR:-/verif}"
REPO="${VERIF_REPO:-/repo}"
B="$V/build"
export GOFLAGS=-mod=mod GOPROXY=off GOSUMDB=off GOTOOLCHAIN=local GOTRACEBACK=all CGO_ENABLED=0
mkdir -p "$B"
infra() { echo "INFRASTRUCTURE: $*" >&2; exit 2; }
modfile() {
  cat > "$B/harness.mod.tmp.$$" <<EOF
module verifsim

go 1.23.0

require github.com/maruel/panicparse/v2 v2.0.0

replace github.com/maruel/panicparse/v2 => $REPO
EOF
  mv "$B/harness.mod.tmp.$$" "$B/harness.mod"
  cp "$REPO/go.sum" "$B/harness.sum.tmp.$$" && mv "$B/harness.sum.tmp.$$" "$B/harness.sum"
}
# build_mapsim <outdir>: rewrite package stack of $REPO and build vcheck (+pp) with simulator-ordered map iteration
build_mapsim() {
  local out="$1"
  mkdir -p "$out"
  modfile
  (cd "$V/sim" && go build -modfile="$B/harness.mod" -o "$out/maprewrite" ./cmd/maprewrite) || infra "build of maprewrite failed"
  "$out/maprewrite" -repo "$REPO" -pkg stack -out "$out/src" || infra "maprewrite failed"
  (cd "$V/sim" && go build -modfile="$B/harness.mod" -tags mapsim -overlay "$out/src/overlay.json" -o "$out/vcheck" ./cmd/vcheck) || infra "mapsim build of vcheck failed"
  # the pp binary: also the command's own package (console rendering, CLI loop)
  (cd "$REPO" && "$out/maprewrite" -repo "$REPO" -pkg internal -out "$out/src-internal") || infra "maprewrite (internal) failed"
  python3 - "$out/src/overlay.json" "$out/src-internal/overlay.json" "$out/overlay-pp.json" <<'PY' || infra "overlay merge failed"
import json,sys
a=json.load(open(sys.argv[1])); b=json.load(open(sys.argv[2]))
a["Replace"].update(b["Replace"]); json.dump(a,open(sys.argv[3],"w"),indent=1)
PY
  (cd "$REPO" && go build -overlay "$out/overlay-pp.json" -o "$out/pp" ./cmd/pp) || infra "mapsim build of pp failed"
}
# build_clisim <out>: test binary of $REPO/internal with the simulator's driver overlaid
build_clisim() {
  local out="$1"
  mkdir -p "$(dirname "$out")"
  local d="$B/clisim.$$"
  mkdir -p "$d"
  { cat "$REPO/go.mod"; echo; echo "require verifsim v0.0.0"; echo "replace verifsim => $V/sim"; } > "$d/go.mod"
  cp "$REPO/go.sum" "$d/go.sum"
  # the console part calls the command's unexported renderers; if their signatures differ in the
  # tree under test it does not compile: then a stub takes its place (only C14's console stage needs it)
  local console
  for console in verif_console_test.go.txt verif_console_stub.go.txt; do
    cat > "$d/overlay.json" <<EOF
{"Replace": {"$REPO/internal/verif_clisim_test.go": "$V/sim/clisim/verif_clisim_test.go.txt", "$REPO/internal/verif_console_test.go": "$V/sim/clisim/$console"}}
EOF
    if [ -n "${CLISIM_CLOCKED:-}" ]; then
      # the simulator's clock (and map order) over packages stack and internal of the driver binary:
      # selected per process with VERIF_MAPORDER, Go's own behaviour without it
      local cs="$out.clocksrc"
      rm -rf "$cs"; mkdir -p "$cs"
      (cd "$V/sim" && go build -modfile="$B/harness.mod" -o "$cs/maprewrite" ./cmd/maprewrite) || infra "build of maprewrite failed"
      "$cs/maprewrite" -repo "$REPO" -pkg stack -out "$cs/stack" >/dev/null || infra "maprewrite (stack) failed"
      (cd "$REPO" && "$cs/maprewrite" -repo "$REPO" -pkg internal -out "$cs/internal") >/dev/null || infra "maprewrite (internal) failed"
      python3 - "$d/overlay.json" "$cs/stack/overlay.json" "$cs/internal/overlay.json" <<'PY2' || infra "overlay merge failed"
import json,sys
a=json.load(open(sys.argv[1]))
for f in sys.argv[2:]: a["Replace"].update(json.load(open(f))["Replace"])
json.dump(a,open(sys.argv[1],"w"),indent=1)
PY2
    fi
    if (cd "$REPO" && go test -c -vet=off -modfile="$d/go.mod" -overlay "$d/overlay.json" -o "$out" ./internal) 2> "$d/err"; then
      [ "$console" = verif_console_stub.go.txt ] && echo "note: console renderers of the tree under test have other signatures; console stage unavailable" >&2
      rm -rf "$d"; return 0
    fi
  done
  cat "$d/err" >&2; rm -rf "$d"; infra "build of the clisim driver failed"
}

#!/bin/bash
# C14: tasksim (deterministic) + free-running -race stage (labelled, not simulated).
. "$(dirname "$0")/common.sh"
mkdir -p "$B/C14"
modfile
(cd "$V/sim" && go build -modfile="$B/harness.mod" -o "$B/C14/vcheck" ./cmd/vcheck) || infra "build of vcheck failed"
build_clisim "$B/C14/clisim.test"
export VERIF_CLISIM_BIN="$B/C14/clisim.test"
case "${1:-quick}" in
  replay) exec "$B/C14/vcheck" replay "$2" ;;
  quick|thorough)
    (cd "$V/sim" && CGO_ENABLED=1 go build -race -modfile="$B/harness.mod" -o "$B/C14/vcheck-race" ./cmd/vcheck) || infra "race build of vcheck failed"
    export VERIF_RACE_BIN="$B/C14/vcheck-race"
    exec "$B/C14/vcheck" run C14 "$1" ;;
esac

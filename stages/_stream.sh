#!/bin/bash
# C02 / C07 / C11: iosim (library loop) + clisim (internal.process) + ppdrive (real pp binary).
. "$(dirname "$0")/common.sh"
P="$(basename "$0" .sh)"
mkdir -p "$B/$P"
modfile
(cd "$V/sim" && go build -modfile="$B/harness.mod" -o "$B/$P/vcheck" ./cmd/vcheck) || infra "build of vcheck failed"
CLISIM_CLOCKED=1 build_clisim "$B/$P/clisim.test"
export VERIF_CLISIM_CLOCKED=1
(cd "$REPO" && go build -o "$B/$P/pp" ./cmd/pp) || infra "build of pp failed"
export VERIF_CLISIM_BIN="$B/$P/clisim.test" VERIF_PP_BIN="$B/$P/pp"
case "${1:-quick}" in
  replay) exec "$B/$P/vcheck" replay "$2" ;;
  quick|thorough) exec "$B/$P/vcheck" run "$P" "$1" ;;
esac

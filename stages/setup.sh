#!/bin/bash
# Warm the Go build caches for every engine (both toolchains, -race variants), offline.
. "$(dirname "$0")/common.sh"
modfile
mkdir -p "$B/setup"
(cd "$V/sim" && go build -modfile="$B/harness.mod" -o "$B/setup/vcheck" ./cmd/vcheck) || infra "vcheck build failed"
(cd "$V/sim" && CGO_ENABLED=1 go build -race -modfile="$B/harness.mod" -o "$B/setup/vcheck-race" ./cmd/vcheck) || infra "vcheck -race build failed"
build_mapsim "$B/setup/mapsim"
(cd "$V/sim" && go1.26.8 test -c -modfile="$B/harness.mod" -o "$B/setup/livesim.test" ./livesim) || infra "livesim build failed"
(cd "$V/sim" && CGO_ENABLED=1 go1.26.8 test -c -race -modfile="$B/harness.mod" -o "$B/setup/livesim-race26.test" ./livesim) || infra "livesim -race (go1.26.8) build failed"
(cd "$V/sim" && CGO_ENABLED=1 go test -c -race -modfile="$B/harness.mod" -o "$B/setup/livesim-race23.test" ./livesim) || infra "livesim -race (go1.23) build failed"
(cd "$REPO" && go build -o "$B/setup/pp" ./cmd/pp) || infra "pp build failed"
rm -rf "$B/setup"
exit 0

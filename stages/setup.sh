#!/bin/bash
# Warm the Go build caches for every engine (both toolchains, -race variants), offline.
. "$(dirname "$0")/common.sh"
modfile
mkdir -p "$B/setup"
(cd "$V/sim" && go build -modfile="$B/harness.mod" -o "$B/setup/vcheck" ./cmd/vcheck) || infra "vcheck build failed"
(cd "$V/sim" && CGO_ENABLED=1 go build -race -modfile="$B/harness.mod" -o "$B/setup/vcheck-race" ./cmd/vcheck) || infra "vcheck -race build failed"
build_mapsim "$B/setup/mapsim"
VERIF_BUILD_ONLY=1 "$V/stages/C20.sh" quick || infra "livesim builds failed"
(cd "$REPO" && go build -o "$B/setup/pp" ./cmd/pp) || infra "pp build failed"
rm -rf "$B/setup"
exit 0

#!/bin/bash
# C09: iosim with the simulator's clock over package stack (time.Now/time.Since rewritten at
# build time, the same overlay as C06's build): half of the scheduled executions run under a
# clock that jumps a second per reading.
. "$(dirname "$0")/common.sh"
mkdir -p "$B/C09"
build_clocked() {
  local out="$1"
  modfile
  (cd "$V/sim" && go build -modfile="$B/harness.mod" -o "$out/maprewrite" ./cmd/maprewrite) || infra "build of maprewrite failed"
  "$out/maprewrite" -repo "$REPO" -pkg stack -out "$out/src" || infra "maprewrite failed"
  (cd "$V/sim" && go build -modfile="$B/harness.mod" -tags mapsim -overlay "$out/src/overlay.json" -o "$out/vcheck" ./cmd/vcheck) || infra "clocked build of vcheck failed"
}
build_clocked "$B/C09"
CLISIM_CLOCKED=1 build_clisim "$B/C09/clisim.test"
export VERIF_CLISIM_CLOCKED=1
export VERIF_CLISIM_BIN="$B/C09/clisim.test"
ulimit -v 33554432 2>/dev/null
case "${1:-quick}" in
  replay) exec "$B/C09/vcheck" replay "$2" ;;
  quick|thorough) exec "$B/C09/vcheck" run C09 "$1" ;;
esac

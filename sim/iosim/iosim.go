// Package iosim is the transport of this simulation: a scripted producer
// behind io.Reader and a recording sink behind io.Writer. The system under
// test sees nothing else of the outside world.
package iosim

import (
	"bufio"
	"fmt"
	"io"

	"verifsim/core"
)

// Step is one action of the producer.
//
//	w     N more bytes of the stream become available
//	z     the next N Reads return (0, nil)
//	close end of stream; With: the final bytes come together with io.EOF
//	fail  a non-EOF error; With: together with the final bytes; sticky
type Step struct {
	Op   string `json:"op"`
	N    int    `json:"n,omitempty"`
	With bool   `json:"with,omitempty"`
}

// Schedule is a complete delivery schedule for one stream.
type Schedule struct {
	Steps []Step `json:"steps"`
	// Short[i] caps the number of bytes returned by the i-th Read that returns
	// data (0 = no cap). Reads beyond the list are not capped.
	Short []int `json:"short,omitempty"`
}

// InjectedError is the unique failure a Fail step makes the reader return.
type InjectedError struct {
	ID int
	// Wraps, when set, is what errors.Unwrap yields: a failure that WRAPS
	// io.EOF (a transport that annotates the end it saw) is still a failure of
	// its own identity, not a plain end of stream.
	Wraps error
}

func (e *InjectedError) Error() string {
	if e.Wraps != nil {
		return fmt.Sprintf("verifsim: injected read failure #%d: %v", e.ID, e.Wraps)
	}
	return fmt.Sprintf("verifsim: injected read failure #%d", e.ID)
}

func (e *InjectedError) Unwrap() error { return e.Wraps }

// FailErrFor returns the error value of a failure kind: "" the plain injected
// error, "wraps-eof" an injected error that wraps io.EOF, "unexpected-eof" the
// well-known io.ErrUnexpectedEOF itself.
func FailErrFor(kind string) error {
	switch kind {
	case "wraps-eof":
		return &InjectedError{ID: 2, Wraps: io.EOF}
	case "unexpected-eof":
		return io.ErrUnexpectedEOF
	}
	return &InjectedError{ID: 1}
}

// ReadRec is the record of one Read call.
type ReadRec struct {
	Ev   uint64
	Want int // len(p): exposes the fill level of the caller's buffer
	N    int
	Err  string
	Off  int // stream offset before the call
}

// Stats counts what actually happened (not what was configured).
type Stats struct {
	Reads, ZeroReads, ShortReads, Blocks       int
	EOFPlain, EOFWithData, FailPlain, FailWith int
	StickyRepeats                              int
	Writes                                     int
}

// Add accumulates.
func (s *Stats) Add(o Stats) {
	s.Reads += o.Reads
	s.ZeroReads += o.ZeroReads
	s.ShortReads += o.ShortReads
	s.Blocks += o.Blocks
	s.EOFPlain += o.EOFPlain
	s.EOFWithData += o.EOFWithData
	s.FailPlain += o.FailPlain
	s.FailWith += o.FailWith
	s.StickyRepeats += o.StickyRepeats
	s.Writes += o.Writes
}

// SimReader delivers B according to a Schedule.
type SimReader struct {
	B     []byte
	Sched Schedule
	Clock *core.Clock
	// FailErr is what a fail step returns.
	FailErr error
	// ForgetFail: a failure delivered together with data is reported once;
	// later reads return a plain io.EOF (a source that does not repeat itself).
	ForgetFail bool
	// Front, when set, is the reader the scanner is given instead of the
	// SimReader itself (a wrapper around it); Ahead returns what that wrapper
	// has read from the SimReader and not handed on yet.
	Front io.Reader
	Ahead func() []byte
	// OnBlock runs inside a Read that finds nothing available, before the next
	// producer step is applied: the instant at which the input source blocks.
	OnBlock func(r *SimReader)
	// Yield, when set, runs at the start of every Read (tasksim's interception
	// point).
	Yield func()
	// KeepRecs enables per-call records.
	KeepRecs bool
	Recs     []ReadRec
	Stats    Stats

	delivered int
	off       int
	step      int
	zeros     int
	term      error
	dataReads int
	// States counts abstract reader states reached: offered len(p) bucket x
	// position class of the stream cursor x kind of return (reach measure).
	States [5][4][6]int
}

// StateNames names the dimensions of SimReader.States.
var StateNames = [3][]string{
	{"want<64", "want<1024", "want<8192", "want<16384", "want=16384+"},
	{"at-line-start", "mid-line", "between-CR-LF", "at-end"},
	{"data", "zero", "eof", "err", "data+eof", "data+err"},
}

func (r *SimReader) noteState(want, n int, err error, off int) {
	w := 4
	switch {
	case want < 64:
		w = 0
	case want < 1024:
		w = 1
	case want < 8192:
		w = 2
	case want < 16384:
		w = 3
	}
	p := 1
	switch {
	case off >= len(r.B):
		p = 3
	case off == 0 || r.B[off-1] == '\n':
		p = 0
	case r.B[off-1] == '\r' && r.B[off] == '\n':
		p = 2
	}
	k := 0
	switch {
	case n > 0 && err == io.EOF:
		k = 4
	case n > 0 && err != nil:
		k = 5
	case n > 0:
		k = 0
	case err == io.EOF:
		k = 2
	case err != nil:
		k = 3
	default:
		k = 1
	}
	r.States[w][p][k]++
}

// NewSimReader builds a reader over b.
func NewSimReader(b []byte, s Schedule, c *core.Clock) *SimReader {
	if c == nil {
		c = &core.Clock{}
	}
	return &SimReader{B: b, Sched: s.normalized(), Clock: c, FailErr: &InjectedError{ID: 1}}
}

// Offset is the number of bytes handed to the caller so far.
func (r *SimReader) Offset() int { return r.off - len(r.ahead()) }

func (r *SimReader) ahead() []byte {
	if r.Ahead == nil {
		return nil
	}
	return r.Ahead()
}

// WrapBufio puts a bufio.Reader of the given size between the caller and the
// simulated reader (callers do hand such readers to the scanner: os.Stdin
// behind a bufio.Reader, a bufio.Reader shared with other parsing code). What
// the wrapper has read ahead counts as not handed out yet.
func (r *SimReader) WrapBufio(size int) {
	br := bufio.NewReaderSize(r, size)
	r.Front = br
	r.Ahead = func() []byte {
		p, _ := br.Peek(br.Buffered())
		return p
	}
}

// Delivered is the number of bytes the producer has made available so far.
func (r *SimReader) Delivered() int { return r.delivered }

// Unread returns the bytes of the stream not handed out yet (whether or not
// the producer has released them already).
func (r *SimReader) Unread() []byte {
	if a := r.ahead(); len(a) > 0 {
		return append(append([]byte(nil), a...), r.B[r.off:]...)
	}
	return r.B[r.off:]
}

// Terminated reports whether the terminal condition has been returned.
func (r *SimReader) Terminated() bool { return r.term != nil }

func (r *SimReader) rec(want, n int, err error, off int) {
	r.Stats.Reads++
	r.noteState(want, n, err, off)
	ev := r.Clock.Tick()
	if !r.KeepRecs {
		return
	}
	e := ""
	if err != nil {
		e = err.Error()
	}
	r.Recs = append(r.Recs, ReadRec{Ev: ev, Want: want, N: n, Err: e, Off: off})
}

func (r *SimReader) nextTerminalWith() (error, bool) {
	if r.step < len(r.Sched.Steps) {
		st := r.Sched.Steps[r.step]
		if st.With && (st.Op == "close" || st.Op == "fail") {
			if st.Op == "close" {
				return io.EOF, true
			}
			return r.FailErr, true
		}
	}
	return nil, false
}

// Read implements io.Reader.
func (r *SimReader) Read(p []byte) (int, error) {
	if r.Yield != nil {
		r.Yield()
	}
	start := r.off
	for {
		if r.term != nil {
			r.Stats.StickyRepeats++
			r.rec(len(p), 0, r.term, start)
			return 0, r.term
		}
		if r.zeros > 0 {
			r.zeros--
			r.Stats.ZeroReads++
			r.rec(len(p), 0, nil, start)
			return 0, nil
		}
		if len(p) == 0 {
			r.rec(0, 0, nil, start)
			return 0, nil
		}
		if r.delivered > r.off {
			n := r.delivered - r.off
			if n > len(p) {
				n = len(p)
			}
			if r.dataReads < len(r.Sched.Short) {
				if c := r.Sched.Short[r.dataReads]; c > 0 && c < n {
					n = c
					r.Stats.ShortReads++
				}
			}
			r.dataReads++
			copy(p, r.B[r.off:r.off+n])
			r.off += n
			var err error
			if r.off == r.delivered {
				if e, ok := r.nextTerminalWith(); ok {
					r.step++
					r.term = e
					err = e
					if e == io.EOF {
						r.Stats.EOFWithData++
					} else {
						r.Stats.FailWith++
						if r.ForgetFail {
							// reported once, together with the data; afterwards
							// the source only says it is over
							r.term = io.EOF
						}
					}
				}
			}
			r.rec(len(p), n, err, start)
			return n, err
		}
		// Nothing available: the producer "blocks" here.
		r.Stats.Blocks++
		if r.OnBlock != nil {
			r.OnBlock(r)
		}
		if r.step >= len(r.Sched.Steps) {
			// Implicit tail: release the rest, then a plain close.
			if r.delivered < len(r.B) {
				r.delivered = len(r.B)
				continue
			}
			r.term = io.EOF
			r.Stats.EOFPlain++
			r.rec(len(p), 0, r.term, start)
			return 0, r.term
		}
		st := r.Sched.Steps[r.step]
		r.step++
		switch st.Op {
		case "w":
			r.delivered += st.N
			if r.delivered > len(r.B) {
				r.delivered = len(r.B)
			}
		case "z":
			r.zeros = st.N
		case "close":
			r.term = io.EOF
			r.Stats.EOFPlain++
			r.rec(len(p), 0, r.term, start)
			return 0, r.term
		case "fail":
			r.term = r.FailErr
			r.Stats.FailPlain++
			r.rec(len(p), 0, r.term, start)
			return 0, r.term
		default:
			panic("iosim: unknown step " + st.Op)
		}
	}
}

// WriteRec is the record of one Write call.
type WriteRec struct {
	Ev   uint64
	Off  int
	N    int
	Call int
}

// SimWriter accepts everything and remembers when it got it.
type SimWriter struct {
	Clock *core.Clock
	Buf   []byte
	Recs  []WriteRec
	// Call is set by the driver to the index of the API call in progress.
	Call     int
	KeepRecs bool
	Yield    func()
	Writes   int
}

// NewSimWriter builds a sink.
func NewSimWriter(c *core.Clock) *SimWriter {
	if c == nil {
		c = &core.Clock{}
	}
	return &SimWriter{Clock: c}
}

// Write implements io.Writer. The bytes are copied: the caller's slice may
// alias a buffer that is reused.
func (w *SimWriter) Write(p []byte) (int, error) {
	if w.Yield != nil {
		w.Yield()
	}
	ev := w.Clock.Tick()
	if w.KeepRecs {
		w.Recs = append(w.Recs, WriteRec{Ev: ev, Off: len(w.Buf), N: len(p), Call: w.Call})
	}
	w.Writes++
	w.Buf = append(w.Buf, p...)
	return len(p), nil
}

// ---- schedule constructors -------------------------------------------------

// OneShot delivers everything at once, EOF separately.
func OneShot(n int) Schedule {
	return Schedule{Steps: []Step{{Op: "w", N: n}, {Op: "close"}}}
}

// Split delivers [0,k) then the rest.
func Split(k, n int, with bool) Schedule {
	return Schedule{Steps: []Step{{Op: "w", N: k}, {Op: "w", N: n - k}, {Op: "close", With: with}}}
}

// Fixed delivers chunks of a fixed size.
func Fixed(chunk, n int, with bool) Schedule {
	var st []Step
	for o := 0; o < n; o += chunk {
		c := chunk
		if o+c > n {
			c = n - o
		}
		st = append(st, Step{Op: "w", N: c})
	}
	st = append(st, Step{Op: "close", With: with})
	return Schedule{Steps: st}
}

// RandomOpts tunes Random.
type RandomOpts struct {
	MeanChunk float64
	PZero     float64 // probability of a zero-read run before a chunk
	PShort    float64 // probability that a data read is capped
	Hot       []int   // offsets boundaries are attracted to
	PHot      float64
	With      bool
}

// Random builds a seeded schedule for a stream of n bytes.
func Random(rng *core.Rng, n int, o RandomOpts) Schedule {
	var st []Step
	var short []int
	pos := 0
	hi := 0
	for pos < n {
		if o.PZero > 0 && rng.Chance(o.PZero) {
			k := 1
			switch rng.Intn(4) {
			case 0:
				k = 99
			case 1:
				k = rng.Range(2, 98)
			}
			st = append(st, Step{Op: "z", N: k})
		}
		c := rng.Geom(o.MeanChunk)
		if o.PHot > 0 && len(o.Hot) > 0 && rng.Chance(o.PHot) {
			// jump to the next hot offset (or just around it)
			for hi < len(o.Hot) && o.Hot[hi] <= pos {
				hi++
			}
			if hi < len(o.Hot) {
				t := o.Hot[hi] + rng.Range(-1, 1)
				if t > pos {
					c = t - pos
				}
			}
		}
		if pos+c > n {
			c = n - pos
		}
		st = append(st, Step{Op: "w", N: c})
		pos += c
		if o.PShort > 0 && rng.Chance(o.PShort) {
			short = append(short, rng.Range(1, 16))
		} else if o.PShort > 0 {
			short = append(short, 0)
		}
	}
	if o.PZero > 0 && rng.Chance(o.PZero) {
		st = append(st, Step{Op: "z", N: rng.Range(1, 99)})
	}
	st = append(st, Step{Op: "close", With: o.With})
	return Schedule{Steps: st, Short: short}
}

// Total returns the number of bytes a schedule releases.
func (s Schedule) Total() int {
	n := 0
	for _, st := range s.Steps {
		if st.Op == "w" {
			n += st.N
		}
	}
	return n
}

// Key is a compact canonical text of the schedule (for hashing / samples).
func (s Schedule) Key() string {
	b := make([]byte, 0, 8*len(s.Steps))
	for _, st := range s.Steps {
		b = append(b, st.Op[0])
		b = append(b, fmt.Sprint(st.N)...)
		if st.With {
			b = append(b, '+')
		}
		b = append(b, ' ')
	}
	if len(s.Short) > 0 {
		b = append(b, fmt.Sprint(s.Short)...)
	}
	return string(b)
}

// Nontrivial: at least two producer steps besides the terminal one, or a
// fault (zero reads, short reads, error, EOF with data).
func (s Schedule) Nontrivial() bool {
	w := 0
	for _, st := range s.Steps {
		switch st.Op {
		case "w":
			w++
		case "z", "fail":
			return true
		case "close":
			if st.With {
				return true
			}
		}
	}
	for _, c := range s.Short {
		if c > 0 {
			return true
		}
	}
	return w >= 2
}

// FitTo returns a copy whose write steps release exactly n bytes before the
// terminal step (which is added when missing). Used after a stream was
// shrunk under a schedule built for the longer stream.
func (s Schedule) FitTo(n int) Schedule {
	var st []Step
	var term *Step
	tot := 0
	for i := range s.Steps {
		x := s.Steps[i]
		switch x.Op {
		case "w":
			if tot+x.N > n {
				x.N = n - tot
			}
			if x.N > 0 {
				st = append(st, x)
				tot += x.N
			}
		case "z":
			st = append(st, x)
		default:
			if term == nil {
				t := x
				term = &t
			}
		}
	}
	if tot < n {
		st = append(st, Step{Op: "w", N: n - tot})
	}
	if term == nil {
		term = &Step{Op: "close"}
	}
	st = append(st, *term)
	return Schedule{Steps: st, Short: s.Short}
}

// normalized merges consecutive zero-read steps (shrinking or cutting a
// schedule can make them adjacent) so that no more than 99 empty reads occur
// in a row: 100 is the documented io.ErrNoProgress bound.
func (s Schedule) normalized() Schedule {
	out := Schedule{Short: s.Short}
	for _, st := range s.Steps {
		if st.Op == "w" && st.N <= 0 {
			continue
		}
		if st.Op == "z" {
			if st.N > 99 {
				st.N = 99
			}
			if n := len(out.Steps); n > 0 && out.Steps[n-1].Op == "z" {
				if out.Steps[n-1].N < st.N {
					out.Steps[n-1].N = st.N
				}
				continue
			}
			if st.N <= 0 {
				continue
			}
		}
		out.Steps = append(out.Steps, st)
	}
	return out
}

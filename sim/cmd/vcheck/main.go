// vcheck is the runner of the deterministic simulation checks.
//
//	vcheck run <property> <quick|thorough>   orchestrate workers, shrink, replay-verify, write evidence
//	vcheck worker <property> <tier> <seed> <offset> <stride> <runs>
//	vcheck replay <file>                      re-execute one replay file (exit 1 if it still fails)
//	vcheck selftest <property> <n>            print a digest of n runs (determinism self-test)
//
// Exit status: 0 held / only known findings, 1 violation, 2 infrastructure.
package main

import (
	"bytes"
	"encoding/json"
	"fmt"
	"os"
	"os/exec"
	"path/filepath"
	"runtime"
	"runtime/debug"
	"sort"
	"strconv"
	"strings"
	"sync"
	"time"

	"verifsim/core"
	"verifsim/props"
)

func verifDir() string {
	if d := os.Getenv("VERIF_DIR"); d != "" {
		return d
	}
	return "/verif"
}

func seedEnv() uint64 {
	if s := os.Getenv("VERIF_SEED"); s != "" {
		if v, err := strconv.ParseUint(s, 10, 64); err == nil {
			return v
		}
		if v, err := strconv.ParseInt(s, 10, 64); err == nil {
			return uint64(v)
		}
	}
	return 1
}

func die(code int, f string, a ...any) {
	fmt.Fprintf(os.Stderr, f+"\n", a...)
	os.Exit(code)
}

type workerOut struct {
	Cov        *props.Cov         `json:"cov"`
	Distinct   []string           `json:"distinct"`
	Inputs     []string           `json:"inputs"`
	Violations []*props.Violation `json:"violations"`
	Samples    []any              `json:"samples"`
	Runs       int                `json:"runs"`
	Digest     string             `json:"digest"`
	RunDigests []string           `json:"run_digests"`
	SimDigests []string           `json:"sim_digests"` // PRNG draws and events only
}

func runWorker(spec *props.Spec, tier string, seed uint64, offset, stride, runs int) *workerOut {
	cov := props.NewCov()
	out := &workerOut{Cov: cov}
	var dig bytes.Buffer
	manualGC := spec.WorkerProcs == "1"
	if manualGC {
		debug.SetGCPercent(-1)
	}
	limit := -1
	if s := os.Getenv("VERIF_SELFTEST_LIMIT"); s != "" {
		limit, _ = strconv.Atoi(s)
	}
	for i := offset; i < runs; i += stride {
		if limit >= 0 && out.Runs >= limit {
			break
		}
		r := core.NewRng(core.Mix(seed, spec.ID, uint64(i)))
		if manualGC {
			// collections only at run boundaries: when the collector empties
			// per-P caches (sync.Pool) is then part of the controlled schedule
			runtime.GC()
			runtime.GC()
		}
		ev0, st0 := cov.Evaluations, cov.Steps
		cov.Digest = ""
		vs := spec.Run(r, uint64(i), seed, tier, cov)
		out.Runs++
		// run-local: independent of what this process did before
		one := fmt.Sprintf("%d:%d:%d:%d:%s;", i, r.Draws, cov.Evaluations-ev0, cov.Steps-st0, cov.Digest)
		for _, v := range vs {
			one += "V" + v.Clause + ";"
			if len(out.Violations) < 40 {
				out.Violations = append(out.Violations, v)
			}
		}
		dig.WriteString(one)
		out.RunDigests = append(out.RunDigests, core.Hash([]byte(one))[:12])
		out.SimDigests = append(out.SimDigests, core.Hash([]byte(fmt.Sprintf("%d:%d:%d:%d", i, r.Draws, cov.Evaluations-ev0, cov.Steps-st0)))[:12])
	}
	out.Distinct = props.SortedKeys(cov.Distinct)
	out.Inputs = props.SortedKeys(cov.Inputs)
	out.Samples = cov.Samples
	out.Digest = core.Hash(dig.Bytes())
	return out
}

func main() {
	if len(os.Args) < 2 {
		die(2, "usage: vcheck run|worker|replay|selftest …")
	}
	switch os.Args[1] {
	case "worker":
		if len(os.Args) != 8 {
			die(2, "usage: vcheck worker <prop> <tier> <seed> <offset> <stride> <runs>")
		}
		spec := props.Registry[os.Args[2]]
		if spec == nil {
			die(2, "unknown property %s", os.Args[2])
		}
		seed, _ := strconv.ParseUint(os.Args[4], 10, 64)
		off, _ := strconv.Atoi(os.Args[5])
		stride, _ := strconv.Atoi(os.Args[6])
		runs, _ := strconv.Atoi(os.Args[7])
		out := runWorker(spec, os.Args[3], seed, off, stride, runs)
		enc := json.NewEncoder(os.Stdout)
		if err := enc.Encode(out); err != nil {
			die(2, "encode: %v", err)
		}
	case "selftest":
		spec := props.Registry[os.Args[2]]
		if spec == nil {
			die(2, "unknown property %s", os.Args[2])
		}
		n, _ := strconv.Atoi(os.Args[3])
		out := runWorker(spec, "quick", seedEnv(), 0, 1, n)
		fmt.Printf("%s runs=%d evals=%d steps=%d violations=%d\n", out.Digest, out.Runs, out.Cov.Evaluations, out.Cov.Steps, len(out.Violations))
	case "racestage":
		f := props.RaceStages[os.Args[2]]
		if f == nil {
			die(2, "no race stage for %s", os.Args[2])
		}
		seed, _ := strconv.ParseUint(os.Args[3], 10, 64)
		rounds, _ := strconv.Atoi(os.Args[4])
		vs := f(seed, rounds)
		if len(vs) > 0 {
			json.NewEncoder(os.Stdout).Encode(vs)
			os.Exit(1)
		}
	case "replay":
		if len(os.Args) != 3 {
			die(2, "usage: vcheck replay <file>")
		}
		os.Exit(replay(os.Args[2]))
	case "run":
		if len(os.Args) != 4 {
			die(2, "usage: vcheck run <prop> <quick|thorough>")
		}
		os.Exit(orchestrate(os.Args[2], os.Args[3]))
	default:
		die(2, "unknown command %s", os.Args[1])
	}
}

type replayFile struct {
	Property      string      `json:"property"`
	Clause        string      `json:"clause"`
	Message       string      `json:"message"`
	Deterministic bool        `json:"deterministic"`
	Seed          uint64      `json:"seed"`
	Run           uint64      `json:"run"`
	Case          *props.Case `json:"case"`
	Original      *props.Case `json:"original_case,omitempty"`
	ReplayCmd     string      `json:"replay_cmd"`
	Known         string      `json:"known_finding,omitempty"`
}

func replay(path string) int {
	b, err := os.ReadFile(path)
	if err != nil {
		die(2, "replay: %v", err)
	}
	var rf replayFile
	if err := json.Unmarshal(b, &rf); err != nil {
		die(2, "replay: %v", err)
	}
	spec := props.Registry[rf.Property]
	if spec == nil {
		die(2, "replay: property %s is not served by this binary", rf.Property)
	}
	pinProcs(spec)
	if rf.Case.Mode == "isolation" {
		var ex struct {
			Tier   string `json:"tier"`
			Stride int    `json:"stride"`
			Runs   int    `json:"runs"`
			Index  int    `json:"index_in_sequence"`
			Procs  string `json:"procs"`
		}
		json.Unmarshal(rf.Case.Extra, &ex)
		self, _ := os.Executable()
		digest := func(args []string, env ...string) string {
			cmd := exec.Command(self, args...)
			cmd.Env = append(os.Environ(), env...)
			b, err := cmd.Output()
			if err != nil {
				die(2, "replay: %v", err)
			}
			var o workerOut
			if err := json.Unmarshal(b, &o); err != nil || len(o.RunDigests) == 0 {
				die(2, "replay: bad worker output")
			}
			return o.RunDigests[len(o.RunDigests)-1]
		}
		wp := spec.WorkerProcs
		if wp == "" {
			wp = "2"
		}
		seq := digest([]string{"worker", rf.Property, ex.Tier, fmt.Sprint(rf.Seed), "0", fmt.Sprint(ex.Stride), fmt.Sprint(ex.Runs)}, "GOMAXPROCS="+wp, fmt.Sprintf("VERIF_SELFTEST_LIMIT=%d", ex.Index+1))
		var alone string
		if ex.Procs != "" {
			alone = digest([]string{"worker", rf.Property, ex.Tier, fmt.Sprint(rf.Seed), "0", fmt.Sprint(ex.Stride), fmt.Sprint(ex.Runs)}, "GOMAXPROCS="+ex.Procs, fmt.Sprintf("VERIF_SELFTEST_LIMIT=%d", ex.Index+1))
		} else {
			alone = digest([]string{"worker", rf.Property, ex.Tier, fmt.Sprint(rf.Seed), fmt.Sprint(rf.Run), "1000000000", fmt.Sprint(ex.Runs)}, "GOMAXPROCS="+wp)
		}
		if seq != alone {
			fmt.Printf("replay: run %d: digest %s as the %d-th run of a process, %s alone\nREPRODUCED property=%s clause=%s\n", rf.Run, seq, ex.Index+1, alone, rf.Property, rf.Clause)
			return 1
		}
		fmt.Printf("NOT-REPRODUCED property=%s clause=%s\n", rf.Property, rf.Clause)
		return 0
	}
	if !rf.Deterministic && spec.NondetClause != "" && rf.Clause == spec.NondetClause {
		// a finding about non-determinism: execute the case repeatedly; it is
		// reproduced when two executions disagree (one reports a violation,
		// another does not, or they report different ones)
		first := ""
		for i := 0; i < 60; i++ {
			var cl []string
			for _, v := range spec.Check(rf.Case, props.NewCov()) {
				cl = append(cl, v.Clause+": "+v.Msg)
			}
			k := strings.Join(cl, "\n")
			if i == 0 {
				first = k
				continue
			}
			if k != first {
				fmt.Printf("replay: execution 1 and execution %d of the same case disagree:\n--- 1:\n%s\n--- %d:\n%s\nREPRODUCED property=%s clause=%s\n", i+1, clipS(first, 600), i+1, clipS(k, 600), rf.Property, rf.Clause)
				return 1
			}
		}
		fmt.Printf("NOT-REPRODUCED property=%s clause=%s (60 executions agreed; the finding is about non-determinism and may need more)\n", rf.Property, rf.Clause)
		return 0
	}
	vs := spec.Check(rf.Case, props.NewCov())
	same := false
	for _, v := range vs {
		fmt.Printf("replay: %s\n", v)
		if v.Clause == rf.Clause {
			same = true
		}
	}
	if same {
		fmt.Printf("REPRODUCED property=%s clause=%s\n", rf.Property, rf.Clause)
		return 1
	}
	if len(vs) > 0 {
		fmt.Printf("DIFFERENT-FAILURE property=%s (expected clause %s)\n", rf.Property, rf.Clause)
		return 3
	}
	fmt.Printf("NOT-REPRODUCED property=%s clause=%s\n", rf.Property, rf.Clause)
	return 0
}

func orchestrate(prop, tier string) int {
	t0 := time.Now()
	spec := props.Registry[prop]
	if spec == nil {
		die(2, "unknown property %s", prop)
	}
	pinProcs(spec)
	seed := seedEnv()
	dir := verifDir()
	known, err := props.LoadKnown(filepath.Join(dir, "known_findings.txt"))
	if err != nil {
		die(2, "%v", err)
	}
	knownIDs := map[string]props.KnownFinding{}
	for _, k := range known {
		if k.Kind == "known" && k.Prop == prop {
			knownIDs[k.ID] = k
		}
	}
	runs := spec.Quick
	if tier == "thorough" {
		runs = spec.Thorough
	}
	if s := os.Getenv("VERIF_RUNS"); s != "" {
		if v, err := strconv.Atoi(s); err == nil {
			runs = v
		}
	}
	workers := runtime.NumCPU()
	if s := os.Getenv("VERIF_WORKERS"); s != "" {
		if v, err := strconv.Atoi(s); err == nil && v > 0 {
			workers = v
		}
	}
	if workers > runs {
		workers = runs
	}
	if workers < 1 {
		workers = 1
	}
	fmt.Printf("vcheck: property=%s tier=%s VERIF_SEED=%d runs=%d workers=%d\n", prop, tier, seed, runs, workers)

	total := props.NewCov()
	var all []*props.Violation
	knownHit := map[string]string{}

	// 1. fixed probes for the known findings
	if spec.Probes != nil {
		for _, pc := range spec.Probes() {
			for _, v := range spec.Check(pc, total) {
				all = append(all, v)
			}
		}
	}

	// 2. the seeded runs, one OS process per worker
	self, _ := os.Executable()
	outs := make([]*workerOut, workers)
	errs := make([]error, workers)
	var wg sync.WaitGroup
	timeout := 40 * time.Minute
	if tier == "thorough" {
		timeout = 6 * time.Hour
	}
	for w := 0; w < workers; w++ {
		wg.Add(1)
		go func(w int) {
			defer wg.Done()
			cmd := exec.Command(self, "worker", prop, tier, fmt.Sprint(seed), fmt.Sprint(w), fmt.Sprint(workers), fmt.Sprint(runs))
			wp := spec.WorkerProcs
			if wp == "" {
				wp = "2"
			}
			cmd.Env = append(os.Environ(), "GOMAXPROCS="+wp)
			var so, se bytes.Buffer
			cmd.Stdout, cmd.Stderr = &so, &se
			if err := cmd.Start(); err != nil {
				errs[w] = err
				return
			}
			done := make(chan error, 1)
			go func() { done <- cmd.Wait() }()
			select {
			case err := <-done:
				if err != nil {
					errs[w] = fmt.Errorf("worker %d: %v\n%s", w, err, tail(se.String(), 3000))
					return
				}
			case <-time.After(timeout):
				cmd.Process.Kill()
				errs[w] = fmt.Errorf("worker %d: watchdog timeout after %v", w, timeout)
				return
			}
			var o workerOut
			if err := json.Unmarshal(so.Bytes(), &o); err != nil {
				errs[w] = fmt.Errorf("worker %d: bad output: %v", w, err)
				return
			}
			outs[w] = &o
		}(w)
	}
	wg.Wait()
	for _, e := range errs {
		if e != nil {
			fmt.Fprintf(os.Stderr, "INFRASTRUCTURE: %v\n", e)
			return 2
		}
	}
	doneRuns := 0
	for _, o := range outs {
		o.Cov.Distinct = map[string]int{}
		o.Cov.Inputs = map[string]int{}
		for _, k := range o.Distinct {
			o.Cov.Distinct[k] = 1
		}
		for _, k := range o.Inputs {
			o.Cov.Inputs[k] = 1
		}
		o.Cov.Samples = o.Samples
		total.Merge(o.Cov)
		all = append(all, o.Violations...)
		doneRuns += o.Runs
	}

	extra := map[string]any{}
	var infra []error
	// determinism self-test of the simulator: the first runs of worker 0 again,
	// in fresh processes under other GOMAXPROCS; the per-run digests (PRNG
	// draws, events, result hashes, clauses) must be identical.
	{
		k := 6
		if tier == "thorough" {
			k = 150
		}
		if k > len(outs[0].RunDigests) {
			k = len(outs[0].RunDigests)
		}
		stp := spec.SelfTestProcs
		if stp == nil {
			stp = []string{"1", "7"}
		}
		for _, procs := range stp {
			cmd := exec.Command(self, "worker", prop, tier, fmt.Sprint(seed), "0", fmt.Sprint(workers), fmt.Sprint(runs))
			cmd.Env = append(os.Environ(), "GOMAXPROCS="+procs, fmt.Sprintf("VERIF_SELFTEST_LIMIT=%d", k))
			var so, se bytes.Buffer
			cmd.Stdout, cmd.Stderr = &so, &se
			if err := cmd.Run(); err != nil {
				infra = append(infra, fmt.Errorf("self-test worker: %v: %s", err, tail(se.String(), 1500)))
				break
			}
			var o workerOut
			if err := json.Unmarshal(so.Bytes(), &o); err != nil {
				infra = append(infra, fmt.Errorf("self-test worker output: %v", err))
				break
			}
			for i := 0; i < k; i++ {
				if i >= len(o.RunDigests) || o.RunDigests[i] != outs[0].RunDigests[i] {
					if spec.IsolationClause != "" && i < len(o.SimDigests) && o.SimDigests[i] == outs[0].SimDigests[i] {
						// same PRNG draws and events, different results: the library's
						// outcome depends on the process / its GOMAXPROCS
						ex, _ := json.Marshal(map[string]any{"tier": tier, "stride": workers, "runs": runs, "index_in_sequence": i, "procs": procs})
						all = append(all, &props.Violation{Prop: prop, Clause: spec.IsolationClause, Msg: fmt.Sprintf("run %d gives a different result digest in a fresh process with GOMAXPROCS=%s (same PRNG draws and events): the outcome depends on scheduling or on the process", i*workers, procs),
							Case: &props.Case{Prop: prop, Seed: seed, Run: uint64(i * workers), Mode: "isolation", Extra: ex}})
						break
					}
					infra = append(infra, fmt.Errorf("simulator nondeterminism: run #%d of worker 0 gives a different event digest when repeated in a fresh process with GOMAXPROCS=%s", i, procs))
					break
				}
			}
		}
		extra["determinism_selftest"] = fmt.Sprintf("%d runs re-executed in %d fresh processes (GOMAXPROCS %v): per-run digests of PRNG draws, events, result hashes and clauses identical", k, len(stp), stp)
	}
	// isolation: runs deep in worker 0's sequence again, each ALONE in a fresh
	// process. The simulator keeps no state between runs, so a different result
	// digest means the library's result depends on what the process did before.
	if spec.IsolationClause != "" && len(outs[0].RunDigests) > 1 {
		k := 3
		if tier == "thorough" {
			k = 40
		}
		n := len(outs[0].RunDigests)
		for j := 0; j < k && j < n-1; j++ {
			idx := n - 1 - j*((n-1)/k+1)
			if idx < 1 {
				break
			}
			runIdx := idx * workers // worker 0: offset 0, stride = workers
			cmd := exec.Command(self, "worker", prop, tier, fmt.Sprint(seed), fmt.Sprint(runIdx), "1000000000", fmt.Sprint(runs))
			wp := spec.WorkerProcs
			if wp == "" {
				wp = "2"
			}
			cmd.Env = append(os.Environ(), "GOMAXPROCS="+wp)
			var so, se bytes.Buffer
			cmd.Stdout, cmd.Stderr = &so, &se
			var o workerOut
			if err := cmd.Run(); err != nil {
				infra = append(infra, fmt.Errorf("isolation worker: %v: %s", err, tail(se.String(), 800)))
				break
			}
			if err := json.Unmarshal(so.Bytes(), &o); err != nil || len(o.RunDigests) != 1 {
				infra = append(infra, fmt.Errorf("isolation worker output: %v", err))
				break
			}
			if o.RunDigests[0] != outs[0].RunDigests[idx] {
				ex, _ := json.Marshal(map[string]any{"tier": tier, "stride": workers, "runs": runs, "index_in_sequence": idx})
				all = append(all, &props.Violation{Prop: prop, Clause: spec.IsolationClause, Msg: fmt.Sprintf("run %d gives a different result digest when it is the %d-th run of a process than when it is executed alone in a fresh process: the outcome depends on earlier calls in the same process", runIdx, idx+1),
					Case: &props.Case{Prop: prop, Seed: seed, Run: uint64(runIdx), Mode: "isolation", Extra: ex}})
				break
			}
		}
		extra["isolation_test"] = fmt.Sprintf("%d runs taken from deep in a worker's sequence re-executed alone in fresh processes; result digests compared", k)
	}
	posts := spec.Posts
	if spec.Post != nil {
		posts = append([]func(uint64, string, *props.Cov) ([]*props.Violation, map[string]any, error){spec.Post}, posts...)
	}
	for _, post := range posts {
		vs, ex, err := post(seed, tier, total)
		if err != nil {
			// a stage that could not run must not hide what the others found
			infra = append(infra, err)
			continue
		}
		all = append(all, vs...)
		for k, v := range ex {
			extra[k] = v
		}
	}

	for _, name := range spec.MustReach {
		if total.Probes[name] == 0 {
			infra = append(infra, fmt.Errorf("reach probe %q stayed at zero over %d runs: the workload no longer reaches what this check is about", name, doneRuns))
		}
	}

	// 3. sort violations into known findings and new ones; shrink and verify
	// one representative per clause.
	sort.SliceStable(all, func(i, j int) bool { return all[i].Clause < all[j].Clause })
	reported := map[string]bool{}
	nviol := 0
	rc := 0
	os.MkdirAll(filepath.Join(dir, "replays"), 0o755)
	for _, v := range all {
		if v.Known != "" {
			if kf, ok := knownIDs[v.Known]; ok {
				if knownHit[v.Known] == "" {
					knownHit[v.Known] = kf.Text
				}
				continue
			}
		}
		if reported[v.Clause] {
			continue
		}
		reported[v.Clause] = true
		nviol++
		orig := v.Clause
		path, code := report(spec, v, dir, seed, knownIDs)
		if code == 0 && v.Clause != orig {
			// re-classified (non-determinism finding): one report per batch
			if reported[v.Clause] {
				nviol--
				continue
			}
			reported[v.Clause] = true
		}
		if code == 2 {
			// not reproducible from its materialised case: reported as
			// infrastructure trouble, never as a VIOLATION; other violations of
			// this batch are still reported
			infra = append(infra, fmt.Errorf("a %s violation was dropped because it did not replay (run %d): %s", v.Clause, v.Case.Run, clipS(v.Msg, 700)))
			nviol--
			continue
		}
		fmt.Printf("VIOLATION property=%s replay=%s\n", prop, path)
		fmt.Printf("  clause=%s %s\n", v.Clause, clipS(v.Msg, 600))
		rc = 1
	}
	for _, id := range props.SortedKeys(knownHit) {
		fmt.Printf("KNOWN-FINDING: property=%s %s %s\n", prop, id, knownHit[id])
	}

	for _, e := range infra {
		fmt.Fprintf(os.Stderr, "INFRASTRUCTURE: %v\n", e)
	}
	if len(infra) > 0 && rc == 0 {
		return 2
	}
	// 4. evidence
	wall := time.Since(t0).Seconds()
	writeEvidence(spec, dir, tier, seed, total, doneRuns, wall, nviol, knownHit, extra)
	fmt.Printf("vcheck: %s %s: runs=%d evaluations=%d distinct_nontrivial=%d steps=%d wall=%.1fs violations=%d known_findings=%d\n",
		prop, tier, doneRuns, total.Evaluations, len(total.Distinct), total.Steps, wall, nviol, len(knownHit))
	return rc
}

func clipS(s string, n int) string {
	if len(s) > n {
		return s[:n] + "…"
	}
	return s
}

func tail(s string, n int) string {
	if len(s) > n {
		return s[len(s)-n:]
	}
	return s
}

// report shrinks a violation, writes the replay file and verifies it in a
// fresh process. Returns the path and 0, or 2 on a determinism failure.
func report(spec *props.Spec, v *props.Violation, dir string, seed uint64, knownIDs map[string]props.KnownFinding) (string, int) {
	knownStatus := func(x *props.Violation) string {
		if _, ok := knownIDs[x.Known]; ok {
			return x.Known
		}
		return ""
	}
	want := knownStatus(v)
	// minimisation is bounded in wall-clock time as well as in evaluations: a
	// candidate tried after the deadline counts as "no longer failing", which
	// ends the shrinking with what has been reached (cases with very large
	// inputs cost seconds per evaluation)
	var shrinkDeadline time.Time
	still := func(c *props.Case) (ok bool) {
		defer func() {
			if recover() != nil {
				ok = false
			}
		}()
		if !shrinkDeadline.IsZero() && time.Now().After(shrinkDeadline) {
			return false
		}
		for _, x := range spec.Check(c, props.NewCov()) {
			if x.Clause == v.Clause && knownStatus(x) == want {
				return true
			}
		}
		return false
	}
	min := v.Case
	msg := v.Msg
	if v.Case.Mode == "isolation" {
		name := fmt.Sprintf("%s-%d-%d-isolation.json", spec.ID, seed, v.Case.Run)
		path := filepath.Join(dir, "replays", name)
		rf := replayFile{Property: spec.ID, Clause: v.Clause, Message: msg, Deterministic: true, Seed: seed, Run: v.Case.Run, Case: v.Case, ReplayCmd: "/verif/run.sh replay " + path}
		b, _ := json.MarshalIndent(rf, "", " ")
		os.WriteFile(path, b, 0o644)
		self, _ := os.Executable()
		cmd := exec.Command(self, "replay", path)
		out, _ := cmd.CombinedOutput()
		if cmd.ProcessState == nil || cmd.ProcessState.ExitCode() != 1 {
			fmt.Fprintf(os.Stderr, "INFRASTRUCTURE: fresh-process replay of %s did not reproduce: %s\n", path, tail(string(out), 800))
			return "", 2
		}
		return path, 0
	}
	if v.Case.Mode == "free-running" {
		// uncontrolled schedule: the witness is the stored report; no shrinking,
		// no exact replay is claimed
		name := fmt.Sprintf("%s-%d-free-running.json", spec.ID, seed)
		path := filepath.Join(dir, "replays", name)
		rf := replayFile{Property: spec.ID, Clause: v.Clause, Message: msg, Deterministic: false, Seed: seed, Case: v.Case, ReplayCmd: "/verif/run.sh replay " + path}
		b, _ := json.MarshalIndent(rf, "", " ")
		os.WriteFile(path, b, 0o644)
		return path, 0
	}
	if !still(v.Case) {
		if spec.NondetClause != "" {
			// once more, to tell "never again" from "sometimes": either way the
			// same controlled inputs gave two different outcomes
			name := fmt.Sprintf("%s-%d-%d-%s.json", spec.ID, seed, v.Case.Run, strings.TrimPrefix(spec.NondetClause, spec.ID+"."))
			path := filepath.Join(dir, "replays", name)
			msg := fmt.Sprintf("the same materialised case (same bytes, options, directory tree and simulator-chosen map iteration order) gave a %s violation when first executed and none when executed again in the same process: the outcome depends on something outside the inputs (scheduling of goroutines the code starts itself). First observation: %s", v.Clause, v.Msg)
			rf := replayFile{Property: spec.ID, Clause: spec.NondetClause, Message: msg, Deterministic: false, Seed: seed, Run: v.Case.Run, Case: v.Case, ReplayCmd: "/verif/run.sh replay " + path}
			b, _ := json.MarshalIndent(rf, "", " ")
			if err := os.WriteFile(path, b, 0o644); err != nil {
				fmt.Fprintf(os.Stderr, "INFRASTRUCTURE: %v\n", err)
				return "", 2
			}
			v.Clause, v.Msg = spec.NondetClause, msg
			return path, 0
		}
		fmt.Fprintf(os.Stderr, "INFRASTRUCTURE: violation %s does not reproduce in-process from its materialised case (simulator determinism bug)\n", v.Clause)
		return "", 2
	}
	budget := spec.ShrinkBudget
	if budget == 0 {
		budget = 1500
	}
	shrinkDeadline = time.Now().Add(4 * time.Minute)
	if spec.Shrink != nil {
		min = spec.Shrink(v.Case, still, budget)
	} else {
		min = props.Shrink(v.Case, still, budget)
	}
	shrinkDeadline = time.Time{}
	for _, x := range spec.Check(min, props.NewCov()) {
		if x.Clause == v.Clause {
			msg = x.Msg
			break
		}
	}
	name := fmt.Sprintf("%s-%d-%d-%s.json", spec.ID, seed, v.Case.Run, strings.ReplaceAll(strings.TrimPrefix(v.Clause, spec.ID+"."), "/", "_"))
	path := filepath.Join(dir, "replays", name)
	rf := replayFile{Property: spec.ID, Clause: v.Clause, Message: msg, Deterministic: true, Seed: seed, Run: v.Case.Run, Case: min,
		ReplayCmd: "/verif/run.sh replay " + path}
	b, _ := json.MarshalIndent(rf, "", " ")
	if err := os.WriteFile(path, b, 0o644); err != nil {
		fmt.Fprintf(os.Stderr, "INFRASTRUCTURE: %v\n", err)
		return "", 2
	}
	self, _ := os.Executable()
	cmd := exec.Command(self, "replay", path)
	out, _ := cmd.CombinedOutput()
	if cmd.ProcessState == nil || cmd.ProcessState.ExitCode() != 1 {
		fmt.Fprintf(os.Stderr, "INFRASTRUCTURE: fresh-process replay of %s did not reproduce (exit %v): %s\n", path, cmd.ProcessState, tail(string(out), 800))
		return "", 2
	}
	v.Msg = msg
	return path, 0
}

func writeEvidence(spec *props.Spec, dir, tier string, seed uint64, cov *props.Cov, runs int, wall float64, nviol int, knownHit map[string]string, extra map[string]any) {
	coverage := map[string]any{
		"evaluations":           cov.Evaluations,
		"distinct_nontrivial":   len(cov.Distinct),
		"rule":                  spec.Rule,
		"samples":               cov.Samples,
		"simulated_runs":        runs,
		"distinct_inputs":       len(cov.Inputs),
		"logical_steps":         cov.Steps,
		"simulated_time":        "none: the code under test has no timers; logical steps (intercepted Read/Write events) are the unit",
		"runs_per_hour":         int(float64(runs) / wall * 3600),
		"evaluations_per_hour":  int(float64(cov.Evaluations) / wall * 3600),
		"faults_fired":          cov.Faults,
		"probes":                cov.Probes,
		"reader_states":         len(cov.States),
		"reader_states_measure": "distinct (offered len(p) bucket, position of the stream cursor, kind of return) triples observed at Read calls",
		"reader_states_reached": cov.States,
		"real_components":       spec.Real,
		"stubbed_components":    spec.Stubs,
		"exhaustive":            false,
	}
	if len(cov.Samples) == 0 {
		coverage["samples"] = []any{"(no sample recorded)"}
	}
	for k, v := range extra {
		coverage[k] = v
	}
	kf := []string{}
	for _, id := range props.SortedKeys(knownHit) {
		kf = append(kf, id+": "+knownHit[id])
	}
	coverage["known_findings_hit"] = kf
	ev := map[string]any{
		"property_id": spec.ID,
		"tier":        tier,
		"seed":        seed,
		"level":       spec.Level,
		"coverage":    coverage,
		"assumptions": spec.Assumptions,
		"wall_s":      wall,
		"violations":  nviol,
	}
	b, _ := json.MarshalIndent(ev, "", " ")
	os.MkdirAll(filepath.Join(dir, "evidence"), 0o755)
	if err := os.WriteFile(filepath.Join(dir, "evidence", spec.ID+".json"), append(b, '\n'), 0o644); err != nil {
		die(2, "evidence: %v", err)
	}
}

// pinProcs applies the property's GOMAXPROCS to this process too (replay and
// shrinking execute cases in-process).
func pinProcs(spec *props.Spec) {
	if n, err := strconv.Atoi(spec.WorkerProcs); err == nil && n > 0 {
		runtime.GOMAXPROCS(n)
		if n == 1 {
			debug.SetGCPercent(-1)
		}
	}
}

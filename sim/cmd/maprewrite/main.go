// maprewrite makes Go's randomised map iteration a schedule the simulator
// decides. It type-checks one package of the tree under test, finds every
// `range` over a map and emits rewritten copies of the files in which the
// iteration order comes from a hook (verifIter), plus the hook file and a
// `go build -overlay` description. The tree under test is not modified.
//
//	maprewrite -repo /repo -pkg stack -out /verif/build/mapsim
//
// Exit 2 if a range-over-map site has a key type that cannot be put into a
// content-defined order.
package main

import (
	"bytes"
	"encoding/json"
	"flag"
	"fmt"
	"go/ast"
	"go/format"
	"go/importer"
	"go/parser"
	"go/token"
	"go/types"
	"os"
	"path/filepath"
	"sort"
	"strings"
)

func main() {
	repo := flag.String("repo", "/repo", "tree under test")
	pkg := flag.String("pkg", "stack", "package directory relative to repo")
	out := flag.String("out", "", "output directory")
	flag.Parse()
	if *out == "" {
		fmt.Fprintln(os.Stderr, "maprewrite: -out required")
		os.Exit(2)
	}
	dir := filepath.Join(*repo, *pkg)
	fset := token.NewFileSet()
	ents, err := os.ReadDir(dir)
	if err != nil {
		fail(err)
	}
	var files []*ast.File
	var names []string
	for _, e := range ents {
		n := e.Name()
		if !strings.HasSuffix(n, ".go") || strings.HasSuffix(n, "_test.go") {
			continue
		}
		src, err := os.ReadFile(filepath.Join(dir, n))
		if err != nil {
			fail(err)
		}
		// honour //go:build ignore (regen.go)
		if bytes.Contains(src, []byte("//go:build ignore")) || bytes.Contains(src, []byte("// +build ignore")) {
			continue
		}
		f, err := parser.ParseFile(fset, filepath.Join(dir, n), src, parser.ParseComments)
		if err != nil {
			fail(err)
		}
		files = append(files, f)
		names = append(names, n)
	}
	// drop files of another package (tools/ignore build tags)
	cnt := map[string]int{}
	for _, f := range files {
		cnt[f.Name.Name]++
	}
	dom := ""
	for _, f := range files {
		if dom == "" || cnt[f.Name.Name] > cnt[dom] {
			dom = f.Name.Name
		}
	}
	var kf []*ast.File
	var kn []string
	for i, f := range files {
		if f.Name.Name == dom {
			kf = append(kf, f)
			kn = append(kn, names[i])
		}
	}
	files, names = kf, kn
	info := &types.Info{Types: map[ast.Expr]types.TypeAndValue{}, Uses: map[*ast.Ident]types.Object{}}
	var conf types.Config
	conf.Importer = importer.ForCompiler(fset, "source", nil)
	conf.Error = func(err error) {}
	pkgName := files[0].Name.Name
	if _, err := conf.Check(pkgName, fset, files, info); err != nil {
		// type errors in unrelated places are tolerated as long as the range
		// expressions got their types
		fmt.Fprintf(os.Stderr, "maprewrite: type check reported: %v (continuing)\n", err)
	}
	os.MkdirAll(*out, 0o755)
	overlay := map[string]string{}
	var sites []string
	var clockSites []string
	for i, f := range files {
		changed := false
		var rewrite func(n ast.Node) bool
		rewriteBlock := func(list []ast.Stmt) {
			for si, st := range list {
				lbl, isLbl := st.(*ast.LabeledStmt)
				rs, ok := st.(*ast.RangeStmt)
				if isLbl {
					rs, ok = lbl.Stmt.(*ast.RangeStmt)
				}
				if !ok {
					continue
				}
				tv, found := info.Types[rs.X]
				if !found {
					continue
				}
				mt, isMap := tv.Type.Underlying().(*types.Map)
				if !isMap {
					continue
				}
				if !orderable(mt.Key()) {
					fmt.Fprintf(os.Stderr, "maprewrite: %s: key type %s cannot be canonically ordered\n", fset.Position(rs.Pos()), mt.Key())
					os.Exit(2)
				}
				pos := fset.Position(rs.Pos())
				site := fmt.Sprintf("%s:%d", names[i], pos.Line)
				sites = append(sites, site)
				it := &ast.Ident{Name: fmt.Sprintf("verifIt%d", pos.Line)}
				// for verifItN := verifIter(X, "site"); verifItN.next(X); { k, v := verifItN.k, verifItN.v; _ = k; BODY }
				init := &ast.AssignStmt{Lhs: []ast.Expr{it}, Tok: token.DEFINE, Rhs: []ast.Expr{&ast.CallExpr{
					Fun: &ast.Ident{Name: "verifIter"}, Args: []ast.Expr{rs.X, &ast.BasicLit{Kind: token.STRING, Value: fmt.Sprintf("%q", site)}}}}}
				cond := &ast.CallExpr{Fun: &ast.SelectorExpr{X: it, Sel: &ast.Ident{Name: "next"}}, Args: []ast.Expr{rs.X}}
				var pre []ast.Stmt
				var lhs, rhs []ast.Expr
				if rs.Key != nil && !isBlank(rs.Key) {
					lhs = append(lhs, rs.Key)
					rhs = append(rhs, &ast.SelectorExpr{X: it, Sel: &ast.Ident{Name: "k"}})
				}
				if rs.Value != nil && !isBlank(rs.Value) {
					lhs = append(lhs, rs.Value)
					rhs = append(rhs, &ast.SelectorExpr{X: it, Sel: &ast.Ident{Name: "v"}})
				}
				if len(lhs) > 0 {
					tok := rs.Tok
					if tok != token.DEFINE && tok != token.ASSIGN {
						tok = token.DEFINE
					}
					pre = append(pre, &ast.AssignStmt{Lhs: lhs, Tok: tok, Rhs: rhs})
				}
				body := &ast.BlockStmt{List: append(pre, rs.Body.List...)}
				fs := &ast.ForStmt{Init: init, Cond: cond, Body: body}
				if isLbl {
					lbl.Stmt = fs
				} else {
					list[si] = fs
				}
				changed = true
			}
		}
		rewrite = func(n ast.Node) bool {
			switch b := n.(type) {
			case *ast.BlockStmt:
				rewriteBlock(b.List)
			case *ast.CaseClause:
				rewriteBlock(b.Body)
			case *ast.CommClause:
				rewriteBlock(b.Body)
			}
			return true
		}
		ast.Inspect(f, rewrite)
		// the wall clock: time.Now() / time.Since(t) become the simulator's clock
		ast.Inspect(f, func(n ast.Node) bool {
			call, ok := n.(*ast.CallExpr)
			if !ok {
				return true
			}
			sel, ok := call.Fun.(*ast.SelectorExpr)
			if !ok {
				return true
			}
			id, ok := sel.X.(*ast.Ident)
			if !ok {
				return true
			}
			pn, ok := info.Uses[id].(*types.PkgName)
			if !ok || pn.Imported().Path() != "time" {
				return true
			}
			where := fmt.Sprintf("%s:%d", names[i], fset.Position(call.Pos()).Line)
			switch sel.Sel.Name {
			case "Now":
				call.Fun = &ast.Ident{Name: "verifNow"}
				changed = true
				clockSites = append(clockSites, where)
			case "Since":
				call.Fun = &ast.Ident{Name: "verifSince"}
				changed = true
				clockSites = append(clockSites, where)
			}
			return true
		})
		if !changed {
			continue
		}
		var buf bytes.Buffer
		if err := format.Node(&buf, fset, f); err != nil {
			fail(err)
		}
		dst := filepath.Join(*out, names[i])
		if err := os.WriteFile(dst, buf.Bytes(), 0o644); err != nil {
			fail(err)
		}
		overlay[filepath.Join(dir, names[i])] = dst
	}
	hook := filepath.Join(*out, "verif_mapiter.go")
	if err := os.WriteFile(hook, []byte(strings.Replace(hookSrc, "package PKG", "package "+pkgName, 1)), 0o644); err != nil {
		fail(err)
	}
	overlay[filepath.Join(dir, "verif_mapiter.go")] = hook
	ov, _ := json.MarshalIndent(map[string]any{"Replace": overlay}, "", " ")
	if err := os.WriteFile(filepath.Join(*out, "overlay.json"), ov, 0o644); err != nil {
		fail(err)
	}
	sort.Strings(sites)
	if err := os.WriteFile(filepath.Join(*out, "sites.txt"), []byte(strings.Join(sites, "\n")+"\n"), 0o644); err != nil {
		fail(err)
	}
	fmt.Printf("maprewrite: %d range-over-map sites in %s: %s\n", len(sites), dir, strings.Join(sites, " "))
	fmt.Printf("maprewrite: %d wall-clock sites: %s\n", len(clockSites), strings.Join(clockSites, " "))
}

func isBlank(e ast.Expr) bool {
	id, ok := e.(*ast.Ident)
	return ok && id.Name == "_"
}

// orderable: key types the hook can order by content.
func orderable(t types.Type) bool {
	switch u := t.Underlying().(type) {
	case *types.Basic:
		return u.Info()&(types.IsInteger|types.IsString|types.IsFloat|types.IsBoolean) != 0
	case *types.Pointer:
		_, ok := u.Elem().Underlying().(*types.Struct)
		return ok
	case *types.Struct, *types.Array:
		return true
	}
	return false
}

func fail(err error) {
	fmt.Fprintf(os.Stderr, "maprewrite: %v\n", err)
	os.Exit(2)
}

const hookSrc = `// Code generated by /verif/sim/cmd/maprewrite. DO NOT EDIT.
// Present only in simulation builds (go build -overlay); never in /repo.

package PKG

import (
	"fmt"
	"os"
	"reflect"
	"sort"
	"strconv"
	"strings"
	"sync"
	"time"
)

// verifMap is the simulator's control over map iteration order.
var verifMap struct {
	mu    sync.Mutex
	mode  string // "", "sorted", "reverse", "rot:<r>", "perm"
	seed  uint64
	calls uint64
	stats map[string][2]int // site -> {iterations, iterations over >= 2 entries}
	clock      time.Duration
	clockCalls uint64
}

func init() {
	if s := os.Getenv("VERIF_MAPORDER"); s != "" {
		mode, seedS, _ := strings.Cut(s, "@")
		seed, _ := strconv.ParseUint(seedS, 10, 64)
		VerifSetMapOrder(mode, seed)
	}
}

// VerifSetMapOrder selects how every range-over-map of this package iterates
// from now on. mode "" restores Go's own order.
func VerifSetMapOrder(mode string, seed uint64) {
	verifMap.mu.Lock()
	verifMap.mode, verifMap.seed, verifMap.calls = mode, seed, 0
	verifMap.clock, verifMap.clockCalls = 0, 0
	verifMap.mu.Unlock()
}

// VerifMapStats returns site -> {iterations, iterations over >= 2 entries} and resets.
func VerifMapStats() map[string][2]int {
	verifMap.mu.Lock()
	defer verifMap.mu.Unlock()
	s := verifMap.stats
	verifMap.stats = nil
	return s
}

// verifNow is the simulator's wall clock for this package: frozen in mode
// "sorted", jumping a second per reading in mode "reverse", by a seeded amount
// otherwise; the real clock when no mode is set.
func verifNow() time.Time {
	verifMap.mu.Lock()
	defer verifMap.mu.Unlock()
	if verifMap.mode == "" {
		return time.Now()
	}
	verifMap.clockCalls++
	switch {
	case verifMap.mode == "sorted":
	case verifMap.mode == "reverse":
		verifMap.clock += time.Second
	default:
		verifMap.clock += time.Duration(verifMix(verifMap.seed^verifMix(verifMap.clockCalls))%uint64(400*time.Millisecond))
	}
	return time.Date(2026, 1, 1, 0, 0, 0, 0, time.UTC).Add(verifMap.clock)
}

func verifSince(t time.Time) time.Duration { return verifNow().Sub(t) }

type verifIterT[K comparable, V any] struct {
	tails int
	keys  []K
	i     int
	seen  map[K]bool
	k     K
	v     V
	rng   uint64
	tail  bool
	extra []K
	own   bool // Go's own order
	ch    []K
}

func verifMix(x uint64) uint64 {
	x += 0x9e3779b97f4a7c15
	x = (x ^ (x >> 30)) * 0xbf58476d1ce4e5b9
	x = (x ^ (x >> 27)) * 0x94d049bb133111eb
	return x ^ (x >> 31)
}

func (it *verifIterT[K, V]) rand() uint64 {
	it.rng = verifMix(it.rng)
	return it.rng
}

func verifCanon(v reflect.Value) string {
	for v.Kind() == reflect.Ptr && !v.IsNil() {
		v = v.Elem()
	}
	return fmt.Sprintf("%+v", v.Interface())
}

func verifSortKeys[K comparable, V any](m map[K]V, keys []K) {
	if len(keys) < 2 {
		return
	}
	kind := reflect.TypeOf(keys[0]).Kind()
	switch kind {
	case reflect.String:
		sort.Slice(keys, func(i, j int) bool { return reflect.ValueOf(keys[i]).String() < reflect.ValueOf(keys[j]).String() })
	case reflect.Int, reflect.Int8, reflect.Int16, reflect.Int32, reflect.Int64:
		sort.Slice(keys, func(i, j int) bool { return reflect.ValueOf(keys[i]).Int() < reflect.ValueOf(keys[j]).Int() })
	case reflect.Uint, reflect.Uint8, reflect.Uint16, reflect.Uint32, reflect.Uint64, reflect.Uintptr:
		sort.Slice(keys, func(i, j int) bool { return reflect.ValueOf(keys[i]).Uint() < reflect.ValueOf(keys[j]).Uint() })
	default:
		// content canon: the pointee of the key and, to break ties, of the value
		canon := make(map[K]string, len(keys))
		for _, k := range keys {
			canon[k] = verifCanon(reflect.ValueOf(k)) + "|" + verifCanon(reflect.ValueOf(m[k]))
		}
		sort.SliceStable(keys, func(i, j int) bool { return canon[keys[i]] < canon[keys[j]] })
	}
}

func verifIter[K comparable, V any](m map[K]V, site string) *verifIterT[K, V] {
	verifMap.mu.Lock()
	mode, seed := verifMap.mode, verifMap.seed
	verifMap.calls++
	call := verifMap.calls
	if verifMap.stats == nil {
		verifMap.stats = map[string][2]int{}
	}
	st := verifMap.stats[site]
	st[0]++
	if len(m) >= 2 {
		st[1]++
	}
	verifMap.stats[site] = st
	verifMap.mu.Unlock()
	it := &verifIterT[K, V]{}
	it.keys = make([]K, 0, len(m))
	for k := range m {
		it.keys = append(it.keys, k)
	}
	if mode == "" {
		// Go's own order for this loop instance: the order just observed.
		it.own = true
	} else {
		verifSortKeys(m, it.keys)
	}
	it.rng = verifMix(seed ^ verifMix(call))
	n := len(it.keys)
	switch {
	case mode == "reverse":
		for i, j := 0, n-1; i < j; i, j = i+1, j-1 {
			it.keys[i], it.keys[j] = it.keys[j], it.keys[i]
		}
	case strings.HasPrefix(mode, "rot:"):
		r, _ := strconv.Atoi(mode[4:])
		if n > 0 {
			r %= n
			it.keys = append(append([]K{}, it.keys[r:]...), it.keys[:r]...)
		}
	case mode == "perm":
		for i := n - 1; i > 0; i-- {
			j := int(it.rand() % uint64(i+1))
			it.keys[i], it.keys[j] = it.keys[j], it.keys[i]
		}
	}
	it.seen = make(map[K]bool, n)
	for _, k := range it.keys {
		it.seen[k] = true
	}
	return it
}

// next advances. Entries deleted meanwhile are skipped; entries inserted
// during the loop are visited or not, as the language permits: decided per
// entry by the run's PRNG (mode sorted: never; reverse: always).
func (it *verifIterT[K, V]) next(m map[K]V) bool {
	for it.i < len(it.keys) {
		k := it.keys[it.i]
		it.i++
		if v, ok := m[k]; ok {
			it.k, it.v = k, v
			return true
		}
	}
	// entries created during the iteration
	for {
		var fresh []K
		for k := range m {
			if !it.seen[k] {
				fresh = append(fresh, k)
			}
		}
		if len(fresh) == 0 {
			return false
		}
		verifSortKeys(m, fresh)
		for _, k := range fresh {
			it.seen[k] = true
		}
		verifMap.mu.Lock()
		mode := verifMap.mode
		verifMap.mu.Unlock()
		for _, k := range fresh {
			visit := false
			switch {
			case mode == "sorted" || mode == "":
				visit = false
			case mode == "reverse":
				visit = true
			default:
				visit = it.rand()&1 == 1
			}
			if visit {
				it.tails++
				if it.tails > 5000 {
					// a loop that keeps inserting entries which it then visits never
					// ends under an iteration order the language permits
					panic("verifIter: unbounded iteration: the loop keeps inserting map entries and visiting them")
				}
				if v, ok := m[k]; ok {
					it.keys = append(it.keys, k)
					it.i = len(it.keys)
					it.k, it.v = k, v
					return true
				}
			}
		}
	}
}
`

package props

import (
	"bytes"
	"encoding/json"
	"fmt"
	"os"
	"reflect"
	"strings"
	"sync"

	"github.com/maruel/panicparse/v2/stack"

	"verifsim/core"
	"verifsim/gen"
	"verifsim/iosim"
)

// ---- C14: snapshot immutability under histories; interleaved clients --------
//
// tasksim: N client tasks, each a seeded script of API calls. Every task is a
// real goroutine that runs only while it holds the scheduler's token; it gives
// the token back at every intercepted Read/Write of its streams and at every
// call boundary. The sequence of picks is part of the case, so one case is one
// exact interleaving at that granularity.

// TaskOp is one API call of a script.
type TaskOp struct {
	Op     string         `json:"op"` // scan | agg | agghtml | snaphtml
	Level  int            `json:"level,omitempty"`
	Target int            `json:"target"` // index of a shared snapshot, -1 = the task's own last scan
	Doc    int            `json:"doc,omitempty"`
	Sched  iosim.Schedule `json:"schedule,omitempty"`
}

// C14Extra is the workload of a C14 case.
type C14Extra struct {
	Docs    []*gen.Doc `json:"docs"`
	Shared  []int      `json:"shared"` // Docs indices parsed up front into shared snapshots
	Tasks   [][]TaskOp `json:"tasks"`
	Picks   []int      `json:"picks"` // scheduler decisions, consumed one per yield
	History []TaskOp   `json:"history,omitempty"`
	// Tree, when set, is a directory tree the shared Opts point at (GuessPaths
	// and AnalyzeSources on): scans then also resolve paths and parse sources.
	Tree *TreeEnv `json:"tree,omitempty"`
	// GuessUnset: GuessPaths is on but the local roots are left unset in the
	// shared Opts (a caller that builds Opts by hand).
	GuessUnset bool `json:"guess_paths_unset_roots,omitempty"`
}

// optsFor builds the Opts value all tasks of a case share.
func (ex *C14Extra) optsFor() *stack.Opts {
	if ex.Tree == nil {
		if ex.GuessUnset {
			return &stack.Opts{NameArguments: true, GuessPaths: true}
		}
		return &stack.Opts{NameArguments: true}
	}
	// the GOPATH list has spare capacity, as a slice built with append has: a
	// library that appends to its alias writes into the caller's array
	gp := make([]string, len(ex.Tree.GOPATHs), len(ex.Tree.GOPATHs)+2)
	copy(gp, ex.Tree.GOPATHs)
	return &stack.Opts{LocalGOROOT: ex.Tree.GOROOT, LocalGOPATHs: gp, NameArguments: true, GuessPaths: true, AnalyzeSources: true}
}

// optsEqual compares two Opts values including the hidden part of the GOPATH
// slice (its spare capacity).
func optsEqual(a, b *stack.Opts) bool {
	if !reflect.DeepEqual(a, b) {
		return false
	}
	return reflect.DeepEqual(a.LocalGOPATHs[:cap(a.LocalGOPATHs)], b.LocalGOPATHs[:cap(b.LocalGOPATHs)])
}

var c14Levels = []stack.Similarity{stack.ExactFlags, stack.ExactLines, stack.AnyPointer, stack.AnyValue}

func snapKey(s *stack.Snapshot) string {
	if s == nil {
		return "<nil>"
	}
	var b strings.Builder
	for _, g := range s.Goroutines {
		fmt.Fprintf(&b, "%+v\n", *g)
	}
	return b.String()
}

func aggKey(a *stack.Aggregated) string {
	var b strings.Builder
	for _, x := range a.Buckets {
		fmt.Fprintf(&b, "%+v\n", *x)
	}
	return b.String()
}

func parseDoc(d *gen.Doc, opts *stack.Opts) *stack.Snapshot {
	w := iosim.NewSimWriter(nil)
	res := ScanOnce(bytes.NewReader(gen.Render(d).Bytes), w, opts)
	return res.Snap
}

// sched is the token-passing scheduler.
type tsched struct {
	picks   []int
	pi      int
	parked  chan int // task id that gave the token back (or -id-1 when done)
	resume  []chan struct{}
	alive   []bool
	yields  int
	swtch   int
	last    int
	cur     int
	history []int
}

type taskState struct {
	id      int
	cur     *stack.Snapshot
	curAgg  *stack.Aggregated
	results []string
	panic_  string
}

func (t *taskState) runOp(op TaskOp, ex *C14Extra, shared []*stack.Snapshot, opts *stack.Opts, yield func()) {
	target := func() *stack.Snapshot {
		if op.Target >= 0 && op.Target < len(shared) {
			return shared[op.Target]
		}
		return t.cur
	}
	switch op.Op {
	case "scan":
		b := gen.Render(ex.Docs[op.Doc]).Bytes
		clk := &core.Clock{}
		sr := iosim.NewSimReader(b, op.Sched.FitTo(len(b)), clk)
		sr.Yield = yield
		w := iosim.NewSimWriter(clk)
		w.Yield = yield
		s, suffix, err := stack.ScanSnapshot(sr, w, opts)
		t.cur = s
		t.results = append(t.results, "scan:"+snapKey(s)+"|"+ErrKey(err)+"|"+core.Hash(w.Buf, suffix))
	case "agg":
		s := target()
		if s == nil {
			t.results = append(t.results, "agg:nil")
			return
		}
		t.curAgg = s.Aggregate(c14Levels[op.Level%4])
		t.results = append(t.results, "agg:"+aggKey(t.curAgg))
	case "agghtml":
		if t.curAgg == nil {
			t.results = append(t.results, "agghtml:nil")
			return
		}
		w := iosim.NewSimWriter(nil)
		w.Yield = yield
		err := t.curAgg.ToHTML(w, "")
		t.results = append(t.results, "agghtml:"+ErrKey(err)+core.Hash(maskHTML14(w.Buf)))
	case "snaphtml":
		s := target()
		if s == nil {
			t.results = append(t.results, "snaphtml:nil")
			return
		}
		w := iosim.NewSimWriter(nil)
		w.Yield = yield
		err := s.ToHTML(w, "")
		t.results = append(t.results, "snaphtml:"+ErrKey(err)+core.Hash(maskHTML14(w.Buf)))
	}
}

func maskHTML14(b []byte) []byte {
	// the creation time line is the only time-dependent part
	i := bytes.Index(b, []byte("Created on "))
	if i < 0 {
		return b
	}
	j := bytes.IndexByte(b[i:], '<')
	if j < 0 {
		return b
	}
	return append(append(append([]byte{}, b[:i]...), "Created on MASKED"...), b[i+j:]...)
}

// runAlone executes one script serially on fresh objects.
func runAlone(ex *C14Extra, script []TaskOp) (res []string, pan string) {
	opts := ex.optsFor()
	shared := make([]*stack.Snapshot, len(ex.Shared))
	for i, di := range ex.Shared {
		shared[i] = parseDoc(ex.Docs[di], opts)
	}
	t := &taskState{}
	defer func() {
		if p := recover(); p != nil {
			pan = fmt.Sprint(p)
			res = t.results
		}
	}()
	for _, op := range script {
		t.runOp(op, ex, shared, opts, func() {})
	}
	return t.results, ""
}

// runInterleaved executes all scripts under the token-passing scheduler.
func runInterleaved(ex *C14Extra, cov *Cov) ([]*taskState, []*stack.Snapshot, *tsched, *stack.Opts) {
	opts := ex.optsFor()
	shared := make([]*stack.Snapshot, len(ex.Shared))
	for i, di := range ex.Shared {
		shared[i] = parseDoc(ex.Docs[di], opts)
	}
	n := len(ex.Tasks)
	sc := &tsched{picks: ex.Picks, parked: make(chan int), resume: make([]chan struct{}, n), alive: make([]bool, n), last: -1}
	tasks := make([]*taskState, n)
	for i := 0; i < n; i++ {
		sc.resume[i] = make(chan struct{})
		sc.alive[i] = true
		tasks[i] = &taskState{id: i}
	}
	// The yield hook parks the task of the CALLING goroutine, whichever stream
	// object it was reached through: a library that (wrongly) shares a reader
	// between two calls makes one task read through another task's SimReader.
	// Only the token holder runs, so whoever calls yield IS the current task.
	yieldAny := func() {
		me := sc.cur
		sc.parked <- me
		<-sc.resume[me]
	}
	for i := 0; i < n; i++ {
		i := i
		t := tasks[i]
		go func() {
			<-sc.resume[i]
			defer func() {
				if p := recover(); p != nil {
					t.panic_ = fmt.Sprint(p)
				}
				sc.parked <- -i - 1
			}()
			yield := yieldAny
			for _, op := range ex.Tasks[i] {
				yield() // call boundary
				t.runOp(op, ex, shared, opts, yield)
			}
		}()
	}
	live := n
	for live > 0 {
		// choose the next task to run
		var cand []int
		for i := 0; i < n; i++ {
			if sc.alive[i] {
				cand = append(cand, i)
			}
		}
		pick := cand[0]
		if sc.pi < len(sc.picks) {
			pick = cand[sc.picks[sc.pi]%len(cand)]
			sc.pi++
		} else {
			pick = cand[sc.yields%len(cand)]
		}
		if pick != sc.last {
			sc.swtch++
		}
		sc.last = pick
		sc.yields++
		sc.cur = pick
		sc.resume[pick] <- struct{}{}
		id := <-sc.parked
		if id < 0 {
			sc.alive[-id-1] = false
			live--
		}
	}
	if cov != nil {
		cov.Steps += uint64(sc.yields)
		cov.Probes["task-switches"] += sc.swtch
		cov.Probes["yield-points"] += sc.yields
	}
	return tasks, shared, sc, opts
}

// CheckC14 executes one case.
func CheckC14(c *Case, cov *Cov) []*Violation {
	if f := extraModes["C14/"+c.Mode]; f != nil {
		return f(c, cov)
	}
	var ex C14Extra
	if err := json.Unmarshal(c.Extra, &ex); err != nil {
		panic(err)
	}
	var vs []*Violation
	add := func(clause, msg string) {
		vs = append(vs, &Violation{Prop: "C14", Clause: "C14." + clause, Msg: msg, Case: c})
	}
	if ex.Tree != nil {
		if err := writeTreeFiles(ex.Tree.Dir, ex.Tree.Files); err != nil {
			panic(err)
		}
		defer os.RemoveAll(ex.Tree.Dir)
		// environment a user may well have; the library does not read it today
		os.Setenv("GOMODCACHE", ex.Tree.GOPATHs[0]+"/pkg/mod")
		defer os.Unsetenv("GOMODCACHE")
	}
	if c.Mode == "history" {
		hopts := ex.optsFor()
		pristine := parseDoc(ex.Docs[0], ex.optsFor())
		subject := parseDoc(ex.Docs[0], hopts)
		if subject == nil {
			return nil
		}
		t := &taskState{}
		merged := false
		for i, op := range ex.History {
			op.Target = 0
			var pan string
			func() {
				defer func() {
					if p := recover(); p != nil {
						pan = fmt.Sprint(p)
					}
				}()
				t.runOp(op, &ex, []*stack.Snapshot{subject}, hopts, func() {})
			}()
			if pan != "" {
				add("panic", fmt.Sprintf("operation %d (%s) panics: %s", i, op.Op, pan))
				return vs
			}
			if cov != nil {
				cov.Evaluations++
			}
			if reflect.DeepEqual(pristine.Goroutines, subject.Goroutines) && !reflect.DeepEqual(pristine, subject) {
				add("snapshot-mutated", fmt.Sprintf("after operation %d (%s level %d) the snapshot differs from a freshly parsed twin outside its goroutines: RemoteGOROOT %q vs %q, RemoteGOPATHs %v vs %v, LocalGomods %v vs %v, LocalGOPATHs %v vs %v", i, op.Op, op.Level, subject.RemoteGOROOT, pristine.RemoteGOROOT, subject.RemoteGOPATHs, pristine.RemoteGOPATHs, subject.LocalGomods, pristine.LocalGomods, subject.LocalGOPATHs, pristine.LocalGOPATHs))
				return vs
			}
			if !reflect.DeepEqual(pristine.Goroutines, subject.Goroutines) {
				d := ""
				for gi := range pristine.Goroutines {
					if gi < len(subject.Goroutines) {
						if x := DiffGoroutine(pristine.Goroutines[gi], subject.Goroutines[gi]); x != "" {
							d = fmt.Sprintf("goroutine[%d]%s", gi, x)
							break
						}
					}
				}
				add("snapshot-mutated", fmt.Sprintf("after operation %d (%s level %d) the snapshot's goroutines differ from a freshly parsed twin: %s", i, op.Op, op.Level, d))
				return vs
			}
			// same operation sequence prefix on a fresh parse gives the same result
			fopts := ex.optsFor()
			fresh := parseDoc(ex.Docs[0], fopts)
			ft := &taskState{}
			// the i-th result depends only on the snapshot and (for agghtml) the latest agg
			lastAgg := -1
			for j := i; j >= 0; j-- {
				if ex.History[j].Op == "agg" {
					lastAgg = j
					break
				}
			}
			if op.Op == "agghtml" && lastAgg >= 0 {
				a := ex.History[lastAgg]
				a.Target = 0
				ft.runOp(a, &ex, []*stack.Snapshot{fresh}, fopts, func() {})
				ft.results = nil
			}
			ft.runOp(op, &ex, []*stack.Snapshot{fresh}, fopts, func() {})
			if len(ft.results) > 0 && ft.results[len(ft.results)-1] != t.results[len(t.results)-1] {
				add("result-changed", fmt.Sprintf("operation %d (%s level %d) gives a different result than the same operation on a freshly parsed snapshot; after the history %s", i, op.Op, op.Level, histString(ex.History[:i])))
				return vs
			}
			if t.curAgg != nil {
				for _, b := range t.curAgg.Buckets {
					if len(b.IDs) > 1 {
						merged = true
					}
				}
			}
		}
		if !optsEqual(hopts, ex.optsFor()) {
			add("opts-mutated", fmt.Sprintf("the Opts value passed to ScanSnapshot was modified by the library (spare capacity of LocalGOPATHs included): %+v / %q, was %+v", *hopts, hopts.LocalGOPATHs[:cap(hopts.LocalGOPATHs)], *ex.optsFor()))
		}
		if cov != nil && merged && len(ex.History) >= 2 {
			cov.Distinct[core.Hash(c.Extra)]++
		}
		return vs
	}
	// interleaved tasks
	tasks, shared, sc, opts := runInterleaved(&ex, cov)
	if cov != nil {
		for _, t := range tasks {
			cov.AddDigest(core.Hash([]byte(strings.Join(t.results, "\x00"))))
		}
		cov.Evaluations++
		if sc.swtch >= 3 {
			cov.Distinct[core.Hash(c.Extra)]++
		}
	}
	for i, t := range tasks {
		want, wp := runAlone(&ex, ex.Tasks[i])
		if t.panic_ != "" || wp != "" {
			if t.panic_ != wp {
				add("panic", fmt.Sprintf("task %d panics under this interleaving: %q (alone: %q)", i, t.panic_, wp))
				return vs
			}
			continue
		}
		for j := range want {
			if j >= len(t.results) || want[j] != t.results[j] {
				got := "<missing>"
				if j < len(t.results) {
					got = t.results[j]
				}
				add("interleaving", fmt.Sprintf("task %d operation %d (%s): result under this interleaving differs from the result when run alone: %s vs %s", i, j, ex.Tasks[i][j].Op, clipS(got, 300), clipS(want[j], 300)))
				return vs
			}
		}
	}
	if !optsEqual(opts, ex.optsFor()) {
		add("opts-mutated", fmt.Sprintf("the Opts value shared by the tasks was modified by the library (spare capacity of LocalGOPATHs included): %+v / %q, was %+v", *opts, opts.LocalGOPATHs[:cap(opts.LocalGOPATHs)], *ex.optsFor()))
		return vs
	}
	for i, di := range ex.Shared {
		if p := parseDoc(ex.Docs[di], ex.optsFor()); !reflect.DeepEqual(p, shared[i]) {
			add("snapshot-mutated", fmt.Sprintf("shared snapshot %d differs from a freshly parsed twin after the interleaved tasks ran", i))
			return vs
		}
	}
	return vs
}

func histString(h []TaskOp) string {
	var p []string
	for _, o := range h {
		p = append(p, fmt.Sprintf("%s/%d", o.Op, o.Level))
	}
	return "[" + strings.Join(p, " ") + "]"
}

func c14Doc(r *core.Rng, files []string) *gen.Doc {
	if r.Chance(0.8) || files != nil {
		return gen.GenerateSimilar(r, gen.SimilarCfg{Groups: r.Range(1, 4), MaxPerGrp: []int{2, 3, 5, 8}[r.Intn(4)], Shuffle: r.Chance(0.5), Files: files})
	}
	cfg := gen.DefaultCfg(r)
	cfg.MinDumps, cfg.MaxDumps = 1, 1
	cfg.Long, cfg.VeryLong = false, false
	return gen.Generate(r, cfg)
}

func c14Script(r *core.Rng, ndocs, nshared, n int) []TaskOp {
	var s []TaskOp
	haveAgg, haveScan := false, false
	for i := 0; i < n; i++ {
		var op TaskOp
		op.Target = -1
		if nshared > 0 && r.Chance(0.7) {
			op.Target = r.Intn(nshared)
		}
		switch k := r.Intn(10); {
		case k < 2:
			op.Op = "scan"
			op.Doc = r.Intn(ndocs)
			op.Sched = iosim.Schedule{} // filled by caller
			haveScan = true
		case k < 6:
			op.Op = "agg"
			op.Level = r.Intn(4)
			if op.Target < 0 && !haveScan {
				op.Target = 0
			}
			haveAgg = true
		case k < 8:
			if !haveAgg {
				op.Op = "agg"
				op.Level = r.Intn(4)
				if op.Target < 0 && !haveScan {
					op.Target = 0
				}
				haveAgg = true
			} else {
				op.Op = "agghtml"
			}
		default:
			op.Op = "snaphtml"
			if op.Target < 0 && !haveScan {
				op.Target = 0
			}
		}
		if nshared == 0 && op.Target >= 0 {
			op.Target = -1
		}
		s = append(s, op)
	}
	return s
}

// RunC14 is one simulated run: one history case and one interleaving case.
func RunC14(r *core.Rng, run, seed uint64, tier string, cov *Cov) []*Violation {
	var vs []*Violation
	var tree *TreeEnv
	var files []string
	if r.Chance(0.3) {
		base := os.Getenv("VERIF_TMP")
		if base == "" {
			base = os.TempDir()
		}
		tree, files = genTreeEnv(r, fmt.Sprintf("%s/verif-tree/c14/%d/%d", base, seed, run))
		cov.Probe("tree-mode(GuessPaths+AnalyzeSources)")
		if r.Chance(0.3) {
			// roots written with a trailing separator, as they come out of
			// environment variables and configuration files
			tree.GOROOT += "/"
			for i := range tree.GOPATHs {
				tree.GOPATHs[i] += "/"
			}
			cov.Probe("opts:roots-with-trailing-separator")
		}
	}
	guessUnset := tree == nil && r.Chance(0.25)
	if guessUnset {
		cov.Probe("opts:GuessPaths-with-unset-roots")
	}
	// (1) history on one snapshot
	{
		ex := &C14Extra{Docs: []*gen.Doc{c14Doc(r, files)}, Shared: []int{0}, Tree: tree, GuessUnset: guessUnset}
		ex.History = c14Script(r, 1, 1, r.Range(2, 12))
		for i := range ex.History {
			if ex.History[i].Op == "scan" {
				ex.History[i].Op = "agg"
				ex.History[i].Level = r.Intn(4)
			}
			ex.History[i].Target = 0
		}
		exj, _ := json.Marshal(ex)
		c := &Case{Prop: "C14", Run: run, Seed: seed, Mode: "history", Extra: exj, NameArgs: true}
		cov.Inputs[core.Hash(exj)]++
		vs = append(vs, CheckC14(c, cov)...)
		if len(cov.Samples) < 1 {
			cov.Samples = append(cov.Samples, map[string]any{"mode": "history", "stream": Clip(gen.Render(ex.Docs[0]).Bytes, 400), "operations": histString(ex.History)})
		}
	}
	// (2) interleaved tasks
	{
		nd := r.Range(1, 3)
		ex := &C14Extra{Tree: tree, GuessUnset: guessUnset}
		for i := 0; i < nd; i++ {
			ex.Docs = append(ex.Docs, c14Doc(r, files))
		}
		ns := r.Range(1, nd)
		for i := 0; i < ns; i++ {
			ex.Shared = append(ex.Shared, i)
		}
		nt := r.Range(2, 6)
		for t := 0; t < nt; t++ {
			sc := c14Script(r, nd, ns, r.Range(1, 5))
			for i := range sc {
				if sc[i].Op == "scan" {
					n := len(gen.Render(ex.Docs[sc[i].Doc]).Bytes)
					sc[i].Sched = iosim.Random(r, n, iosim.RandomOpts{MeanChunk: []float64{8, 60, 400}[r.Intn(3)], PZero: 0.05, With: r.Chance(0.5)})
				}
			}
			ex.Tasks = append(ex.Tasks, sc)
		}
		np := r.Range(20, 400)
		for i := 0; i < np; i++ {
			// bursts: stay on the same task for a while, or hop
			ex.Picks = append(ex.Picks, r.Intn(64))
		}
		exj, _ := json.Marshal(ex)
		c := &Case{Prop: "C14", Run: run, Seed: seed, Mode: "tasks", Extra: exj, NameArgs: true}
		cov.Inputs[core.Hash(exj)]++
		vs = append(vs, CheckC14(c, cov)...)
		if len(cov.Samples) < 2 {
			var scripts []string
			for _, t := range ex.Tasks {
				scripts = append(scripts, histString(t))
			}
			cov.Samples = append(cov.Samples, map[string]any{"mode": "tasks", "tasks": scripts, "picks": len(ex.Picks), "shared_snapshots": len(ex.Shared)})
		}
	}
	return vs
}

func init() {
	RaceStages["C14"] = RaceStageC14
	register(&Spec{
		ID: "C14", Level: "exploration",
		Run:       RunC14,
		Check:     CheckC14,
		MustReach: []string{"task-switches", "tree-mode(GuessPaths+AnalyzeSources)", "opts:GuessPaths-with-unset-roots"},
		Quick:     3000, Thorough: 200000,
		Rule:            "per run (1) one seeded history of 2..12 Aggregate(level)/Aggregated.ToHTML/Snapshot.ToHTML calls on one snapshot built from groups of similar goroutines (so merges really happen), checked after EVERY operation: goroutines deep-equal a freshly parsed twin, result equal to the same operation on a fresh parse; (2) one tasksim case: 2..6 client tasks with scripts of scan/aggregate/render calls on shared and private snapshots and one shared Opts, interleaved by a seeded token scheduler at every intercepted Read/Write and call boundary, every task's results compared with the same script run alone; evaluations = operations checked + interleavings run; distinct_nontrivial = distinct histories of >= 2 operations in which a bucket merged >= 2 goroutines + distinct interleavings with >= 3 task switches; the free-running -race stage (not simulated) is reported under coverage.free_running",
		Assumptions:     []string{"tasksim interleaves at I/O and call boundaries only; memory-access-level races are only sought by the uncontrolled -race stage, which is labelled as not simulated", "the HTML creation-time line is masked"},
		Real:            []string{"stack.ScanSnapshot", "Snapshot.Aggregate", "Aggregated.ToHTML", "Snapshot.ToHTML"},
		Stubs:           []string{"task scheduler (token passing, seeded picks)", "io.Reader/io.Writer of every task"},
		ShrinkBudget:    400,
		Post:            postC14,
		Posts:           []func(uint64, string, *Cov) ([]*Violation, map[string]any, error){postConsole},
		WorkerProcs:     "1",
		IsolationClause: "C14.history",
		SelfTestProcs:   []string{"1", "1"},
	})
}

// ---- free-running stage (NOT deterministic simulation) ----------------------

// RaceStageC14 runs task scripts with real parallelism. It is meant for a
// binary built with -race: the race detector's report (exit status 66) is the
// witness. Result mismatches are returned as violations.
func RaceStageC14(seed uint64, rounds int) []*Violation {
	var vs []*Violation
	for round := 0; round < rounds; round++ {
		r := core.NewRng(core.Mix(seed, "C14/race", uint64(round)))
		nd := r.Range(1, 3)
		base := os.Getenv("VERIF_TMP")
		if base == "" {
			base = os.TempDir()
		}
		tree, files := genTreeEnv(r, fmt.Sprintf("%s/verif-tree/c14race/%d/%d", base, seed, round))
		// long sources: parsing them takes long enough for scans to overlap in it
		for i := range tree.Files {
			if strings.HasSuffix(tree.Files[i].Path, ".go") && strings.HasPrefix(tree.Files[i].Content, "package p") {
				tree.Files[i].Content += bigSrcTail
			}
		}
		if err := writeTreeFiles(tree.Dir, tree.Files); err != nil {
			panic(err)
		}
		os.Setenv("GOMODCACHE", tree.GOPATHs[0]+"/pkg/mod")
		ex := &C14Extra{Tree: tree}
		for i := 0; i < nd; i++ {
			ex.Docs = append(ex.Docs, c14Doc(r, files))
		}
		for i := 0; i < nd; i++ {
			ex.Shared = append(ex.Shared, i)
		}
		// scan storm: many private scans of the same sources at once (package
		// level state in the source parser would be hit here), each compared
		// with the serial result
		{
			got := make([][]string, 16)
			bad := make(chan string, 64)
			var wg sync.WaitGroup
			gate := make(chan struct{})
			for g := 0; g < 16; g++ {
				wg.Add(1)
				go func(g int) {
					defer wg.Done()
					<-gate // all at once: the first scans meet sources nobody has parsed yet
					defer func() {
						if p := recover(); p != nil {
							select {
							case bad <- fmt.Sprintf("goroutine %d panics: %v", g, p):
							default:
							}
						}
					}()
					o := ex.optsFor()
					for n := 0; n < 24; n++ {
						i := (g + n) % len(ex.Docs)
						got[g] = append(got[g], snapKey(parseDoc(ex.Docs[i], o)))
					}
				}(g)
			}
			close(gate)
			wg.Wait()
			// the serial reference is computed AFTER the storm, so that the storm's
			// first scans meet sources nobody in this process has parsed yet
			want := make([]string, len(ex.Docs))
			for i, d := range ex.Docs {
				want[i] = snapKey(parseDoc(d, ex.optsFor()))
			}
			for g := range got {
				for n, k := range got[g] {
					if i := (g + n) % len(ex.Docs); k != want[i] {
						select {
						case bad <- fmt.Sprintf("goroutine %d scan %d of input %d differs from the serial scan", g, n, i):
						default:
						}
						break
					}
				}
			}
			close(bad)
			for m := range bad {
				exj0, _ := json.Marshal(ex)
				vs = append(vs, &Violation{Prop: "C14", Clause: "C14.race", Case: &Case{Prop: "C14", Run: uint64(round), Seed: seed, Mode: "free-running", Extra: exj0}, Msg: "free-running scan storm: " + m})
				break
			}
		}
		if len(vs) > 0 {
			os.RemoveAll(tree.Dir)
			break
		}
		for t := 0; t < 16; t++ {
			sc := c14Script(r, nd, nd, r.Range(2, 6))
			for i := range sc {
				if sc[i].Op == "scan" {
					n := len(gen.Render(ex.Docs[sc[i].Doc]).Bytes)
					sc[i].Sched = iosim.Random(r, n, iosim.RandomOpts{MeanChunk: 200})
				}
			}
			ex.Tasks = append(ex.Tasks, sc)
		}
		ropts := ex.optsFor()
		shared := make([]*stack.Snapshot, len(ex.Shared))
		for i, di := range ex.Shared {
			shared[i] = parseDoc(ex.Docs[di], ropts)
		}
		tasks := make([]*taskState, len(ex.Tasks))
		done := make(chan int)
		start := make(chan struct{})
		for i := range ex.Tasks {
			i := i
			tasks[i] = &taskState{id: i}
			go func() {
				defer func() {
					if p := recover(); p != nil {
						tasks[i].panic_ = fmt.Sprint(p)
					}
					done <- i
				}()
				<-start
				for _, op := range ex.Tasks[i] {
					tasks[i].runOp(op, ex, shared, ropts, func() {})
				}
			}()
		}
		close(start)
		for range ex.Tasks {
			<-done
		}
		exj, _ := json.Marshal(ex)
		c := &Case{Prop: "C14", Run: uint64(round), Seed: seed, Mode: "free-running", Extra: exj}
		if !optsEqual(ropts, ex.optsFor()) {
			vs = append(vs, &Violation{Prop: "C14", Clause: "C14.race", Case: c, Msg: fmt.Sprintf("free-running: the shared Opts value was modified: %+v", *ropts)})
		}
		for i, t := range tasks {
			want, wp := runAlone(ex, ex.Tasks[i])
			if t.panic_ != wp {
				vs = append(vs, &Violation{Prop: "C14", Clause: "C14.race", Case: c, Msg: fmt.Sprintf("free-running task %d panics: %q", i, t.panic_)})
				break
			}
			if !reflect.DeepEqual(want, t.results) {
				vs = append(vs, &Violation{Prop: "C14", Clause: "C14.race", Case: c, Msg: fmt.Sprintf("free-running task %d: results differ from the serial run", i)})
				break
			}
		}
		os.RemoveAll(tree.Dir)
		if len(vs) > 0 {
			break
		}
	}
	return vs
}

func postC14(seed uint64, tier string, cov *Cov) ([]*Violation, map[string]any, error) {
	return runRaceStage("C14", seed, tier)
}

// shrinkC14 minimises a tasksim / history case: drop tasks, operations,
// scheduler picks, shared snapshots' goroutines.
func shrinkC14(c *Case, still func(*Case) bool, budget int) *Case {
	if c.Mode == "console" {
		return Shrink(c, still, 60) // every evaluation execs the driver
	}
	var ex C14Extra
	if json.Unmarshal(c.Extra, &ex) != nil {
		return c
	}
	cur := c
	evals := 0
	try := func(e *C14Extra) bool {
		if evals >= budget {
			return false
		}
		evals++
		b, _ := json.Marshal(e)
		cand := *c
		cand.Extra = b
		if still(&cand) {
			cur = &cand
			ex = *e
			return true
		}
		return false
	}
	clone := func() *C14Extra {
		var n C14Extra
		b, _ := json.Marshal(&ex)
		json.Unmarshal(b, &n)
		return &n
	}
	for changed := true; changed && evals < budget; {
		changed = false
		// fewer scheduler picks (round robin takes over)
		for n := len(ex.Picks) / 2; n >= 1 && len(ex.Picks) > 0; n /= 2 {
			e := clone()
			e.Picks = e.Picks[:len(e.Picks)-n]
			if try(e) {
				changed = true
			}
		}
		// drop whole tasks
		for i := 0; i < len(ex.Tasks) && len(ex.Tasks) > 1; {
			e := clone()
			e.Tasks = append(e.Tasks[:i], e.Tasks[i+1:]...)
			if try(e) {
				changed = true
			} else {
				i++
			}
		}
		// drop operations
		for ti := range ex.Tasks {
			for oi := 0; oi < len(ex.Tasks[ti]) && len(ex.Tasks[ti]) > 1; {
				e := clone()
				e.Tasks[ti] = append(e.Tasks[ti][:oi], e.Tasks[ti][oi+1:]...)
				if try(e) {
					changed = true
				} else {
					oi++
				}
			}
		}
		for oi := 0; oi < len(ex.History) && len(ex.History) > 1; {
			e := clone()
			e.History = append(e.History[:oi], e.History[oi+1:]...)
			if try(e) {
				changed = true
			} else {
				oi++
			}
		}
		// fewer goroutines in the inputs
		for di := range ex.Docs {
			for ii := range ex.Docs[di].Items {
				for gi := 0; gi < len(ex.Docs[di].Items[ii].Gors) && len(ex.Docs[di].Items[ii].Gors) > 1; {
					e := clone()
					g := e.Docs[di].Items[ii].Gors
					e.Docs[di].Items[ii].Gors = append(g[:gi], g[gi+1:]...)
					if try(e) {
						changed = true
					} else {
						gi++
					}
				}
			}
		}
	}
	return cur
}

// bigSrcTail pads a generated source file with a few thousand lines.
var bigSrcTail = func() string {
	var b strings.Builder
	for i := 0; i < 400; i++ {
		fmt.Fprintf(&b, "\nfunc pad%d(a, b int) int {\n\treturn a*%d + b\n}\n", i, i)
	}
	return b.String()
}()

package props

import (
	"bufio"
	"bytes"
	"encoding/json"
	"fmt"
	"os"
	"os/exec"
	"strings"
	"time"

	"verifsim/core"
)

// Spec describes one decided property to the runner.
type Spec struct {
	ID    string
	Level string
	// Run executes simulated run number run (its PRNG is derived from the master
	// seed by the runner) and returns the violations it saw (at most a few).
	Run func(r *core.Rng, run, seed uint64, tier string, cov *Cov) []*Violation
	// Check re-executes one materialised case (replay, shrinking).
	Check func(c *Case, cov *Cov) []*Violation
	// Runs per tier.
	Quick, Thorough int
	Rule            string
	Assumptions     []string
	Real, Stubs     []string
	// Probes are fixed minimal cases, one per known finding, run first so that
	// the KNOWN-FINDING lines do not depend on the seed.
	Probes func() []*Case
	// ShrinkBudget bounds minimisation.
	ShrinkBudget int
	// WorkerProcs is GOMAXPROCS of the worker processes ("" = 2). tasksim pins
	// it to 1: which P a goroutine runs on decides what a per-P cache
	// (sync.Pool) returns, and that is not a choice the token scheduler makes.
	WorkerProcs string
	// SelfTestProcs are the GOMAXPROCS values of the determinism self-test.
	SelfTestProcs []string
	// IsolationClause, when set, enables the isolation test: sampled runs are
	// re-executed alone in fresh processes and their result digests compared
	// with the in-sequence execution; a difference is reported under this
	// clause (the outcome depends on earlier calls in the same process).
	IsolationClause string
	// Shrink, when set, replaces the generic shrinker.
	Shrink func(c *Case, still func(*Case) bool, budget int) *Case
	// Post runs once in the orchestrator after the workers (extra stages such
	// as the real binary); it may add violations and coverage.
	Post func(seed uint64, tier string, cov *Cov) ([]*Violation, map[string]any, error)
	// NondetClause: for a property that is itself about determinism (C06). A
	// violation that was observed once and does not show again when its
	// materialised case - same bytes, same options, same simulator-chosen map
	// order - is executed again is then itself the finding: the outcome depends
	// on something the simulator does not control (goroutines the code under
	// test starts on its own). It is reported under this clause with a replay
	// file marked non-deterministic (the replay repeats the case until outcomes
	// differ). Without it such a violation is infrastructure trouble (exit 2).
	NondetClause string
	// MustReach: reach probes that have to be above zero after a batch. A probe
	// stuck at zero means the workload no longer gets to what the check is
	// about (a source file of the generated tree that stopped parsing, a stage
	// that silently skipped): the batch is then reported as infrastructure
	// trouble (exit 2) instead of passing vacuously.
	MustReach []string
	// Posts: further stages, run after Post.
	Posts []func(seed uint64, tier string, cov *Cov) ([]*Violation, map[string]any, error)
}

// Registry lists the decided properties of this binary.
var Registry = map[string]*Spec{}

func register(s *Spec) { Registry[s.ID] = s }

// KnownFinding is one line of /verif/known_findings.txt.
type KnownFinding struct {
	Kind   string // "known" or "fixed"
	Prop   string
	ID     string
	Clause string
	Text   string
}

// LoadKnown parses the known-findings file. The file is never written by the
// checks.
func LoadKnown(path string) ([]KnownFinding, error) {
	f, err := os.Open(path)
	if err != nil {
		if os.IsNotExist(err) {
			return nil, nil
		}
		return nil, err
	}
	defer f.Close()
	var out []KnownFinding
	sc := bufio.NewScanner(f)
	for sc.Scan() {
		l := strings.TrimSpace(sc.Text())
		if l == "" || strings.HasPrefix(l, "#") {
			continue
		}
		var kf KnownFinding
		switch {
		case strings.HasPrefix(l, "known:"):
			kf.Kind = "known"
			l = strings.TrimSpace(l[len("known:"):])
		case strings.HasPrefix(l, "fixed:"):
			kf.Kind = "fixed"
			l = strings.TrimSpace(l[len("fixed:"):])
		default:
			return nil, fmt.Errorf("known_findings: unparsable line %q", l)
		}
		head, text, _ := strings.Cut(l, "::")
		kf.Text = strings.TrimSpace(text)
		for _, f := range strings.Fields(head) {
			k, v, ok := strings.Cut(f, "=")
			if !ok {
				if kf.Kind == "fixed" {
					kf.Text = strings.TrimSpace(kf.Text + " " + f)
				}
				continue
			}
			switch k {
			case "property":
				kf.Prop = v
			case "id":
				kf.ID = v
			case "clause":
				kf.Clause = v
			}
		}
		out = append(out, kf)
	}
	return out, sc.Err()
}

// RaceStages are the free-running stages a -race build of vcheck can run.
var RaceStages = map[string]func(seed uint64, rounds int) []*Violation{}

// runRaceStage executes `$VERIF_RACE_BIN racestage <prop> <seed> <rounds>` (a
// vcheck built with -race) and turns a race report into a violation. This is
// NOT deterministic simulation: nobody controls the schedule. The witness is
// the race detector's own report.
func runRaceStage(prop string, seed uint64, tier string) ([]*Violation, map[string]any, error) {
	bin := os.Getenv("VERIF_RACE_BIN")
	if bin == "" {
		return nil, map[string]any{"free_running": "skipped: VERIF_RACE_BIN not set"}, nil
	}
	rounds := 6
	if tier == "thorough" {
		rounds = 200
	}
	t0 := time.Now()
	cmd := exec.Command(bin, "racestage", prop, fmt.Sprint(seed), fmt.Sprint(rounds))
	cmd.Env = append(os.Environ(), "GORACE=halt_on_error=1 exitcode=66", "GOMAXPROCS=16")
	var so, se bytes.Buffer
	cmd.Stdout, cmd.Stderr = &so, &se
	limit := 4 * time.Minute
	if tier == "thorough" {
		limit = 45 * time.Minute
	}
	var err error
	if serr := cmd.Start(); serr != nil {
		return nil, nil, fmt.Errorf("race stage: %v", serr)
	}
	done := make(chan error, 1)
	go func() { done <- cmd.Wait() }()
	select {
	case err = <-done:
	case <-time.After(limit):
		cmd.Process.Kill()
		<-done
		return nil, nil, fmt.Errorf("race stage: watchdog: not finished after %v (killed)", limit)
	}
	info := map[string]any{"free_running": map[string]any{
		"what": "the same task scripts run by 16 goroutines with real parallelism in a -race build; NOT simulated, schedule uncontrolled", "rounds": rounds, "wall_s": time.Since(t0).Seconds(), "race_reports": 0}}
	code := 0
	if err != nil {
		ee, ok := err.(*exec.ExitError)
		if !ok {
			return nil, nil, fmt.Errorf("race stage: %v", err)
		}
		code = ee.ExitCode()
	}
	switch code {
	case 0:
		return nil, info, nil
	case 66:
		info["free_running"].(map[string]any)["race_reports"] = 1
		rep := se.String()
		if len(rep) > 6000 {
			rep = rep[:6000]
		}
		ex, _ := json.Marshal(map[string]any{"race_report": rep, "rounds": rounds})
		return []*Violation{{Prop: prop, Clause: prop + ".race", Msg: "the race detector reported a data race in the free-running stage: " + clipS(rep, 1200),
			Case: &Case{Prop: prop, Seed: seed, Mode: "free-running", Extra: ex}}}, info, nil
	case 1:
		var vs []*Violation
		if err := json.Unmarshal(so.Bytes(), &vs); err != nil {
			return nil, nil, fmt.Errorf("race stage: bad output: %v: %s", err, clipS(so.String()+se.String(), 500))
		}
		return vs, info, nil
	}
	return nil, nil, fmt.Errorf("race stage exited %d: %s", code, clipS(se.String(), 1500))
}

package props

import (
	"bufio"
	"fmt"
	"os"
	"strings"

	"verifsim/core"
)

// Spec describes one decided property to the runner.
type Spec struct {
	ID    string
	Level string
	// Run executes simulated run number run (its PRNG is derived from the master
	// seed by the runner) and returns the violations it saw (at most a few).
	Run func(r *core.Rng, run, seed uint64, tier string, cov *Cov) []*Violation
	// Check re-executes one materialised case (replay, shrinking).
	Check func(c *Case, cov *Cov) []*Violation
	// Runs per tier.
	Quick, Thorough int
	Rule            string
	Assumptions     []string
	Real, Stubs     []string
	// Probes are fixed minimal cases, one per known finding, run first so that
	// the KNOWN-FINDING lines do not depend on the seed.
	Probes func() []*Case
	// ShrinkBudget bounds minimisation.
	ShrinkBudget int
	// Post runs once in the orchestrator after the workers (extra stages such
	// as the real binary); it may add violations and coverage.
	Post func(seed uint64, tier string, cov *Cov) ([]*Violation, map[string]any, error)
}

// Registry lists the decided properties of this binary.
var Registry = map[string]*Spec{}

func register(s *Spec) { Registry[s.ID] = s }

// KnownFinding is one line of /verif/known_findings.txt.
type KnownFinding struct {
	Kind   string // "known" or "fixed"
	Prop   string
	ID     string
	Clause string
	Text   string
}

// LoadKnown parses the known-findings file. The file is never written by the
// checks.
func LoadKnown(path string) ([]KnownFinding, error) {
	f, err := os.Open(path)
	if err != nil {
		if os.IsNotExist(err) {
			return nil, nil
		}
		return nil, err
	}
	defer f.Close()
	var out []KnownFinding
	sc := bufio.NewScanner(f)
	for sc.Scan() {
		l := strings.TrimSpace(sc.Text())
		if l == "" || strings.HasPrefix(l, "#") {
			continue
		}
		var kf KnownFinding
		switch {
		case strings.HasPrefix(l, "known:"):
			kf.Kind = "known"
			l = strings.TrimSpace(l[len("known:"):])
		case strings.HasPrefix(l, "fixed:"):
			kf.Kind = "fixed"
			l = strings.TrimSpace(l[len("fixed:"):])
		default:
			return nil, fmt.Errorf("known_findings: unparsable line %q", l)
		}
		head, text, _ := strings.Cut(l, "::")
		kf.Text = strings.TrimSpace(text)
		for _, f := range strings.Fields(head) {
			k, v, ok := strings.Cut(f, "=")
			if !ok {
				if kf.Kind == "fixed" {
					kf.Text = strings.TrimSpace(kf.Text + " " + f)
				}
				continue
			}
			switch k {
			case "property":
				kf.Prop = v
			case "id":
				kf.ID = v
			case "clause":
				kf.Clause = v
			}
		}
		out = append(out, kf)
	}
	return out, sc.Err()
}

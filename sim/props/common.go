// Package props holds, per property, the workload, the oracle and the
// shrinker. Every check is a pure function of a Case: executing a Case needs
// no PRNG, so a replay file is a complete description of one execution.
package props

import (
	"bytes"
	"encoding/json"
	"fmt"
	"io"
	"reflect"
	"runtime/debug"
	"sort"
	"strings"

	"github.com/maruel/panicparse/v2/stack"

	"verifsim/core"
	"verifsim/gen"
	"verifsim/iosim"
)

// Cut describes where and how the stream ends early (C10).
type Cut struct {
	K    int    `json:"k"`
	Kind string `json:"kind"` // "close" or "fail"
	With bool   `json:"with"`
	// Err is the kind of error value a "fail" cut makes the reader return
	// (iosim.FailErrFor): "", "wraps-eof", "unexpected-eof".
	Err string `json:"err,omitempty"`
	// Once: the failure is reported once (together with the data); later
	// reads of the source return a plain io.EOF.
	Once bool `json:"once,omitempty"`
}

// Case is one fully materialised simulated execution.
type Case struct {
	Prop  string         `json:"property"`
	Run   uint64         `json:"run"`  // index of the generating run
	Seed  uint64         `json:"seed"` // VERIF_SEED of the generating run (informational)
	Mode  string         `json:"mode"` // engine-specific
	Doc   *gen.Doc       `json:"doc,omitempty"`
	Raw   []byte         `json:"raw,omitempty"` // literal stream (no structure known); used when Doc is nil
	Sched iosim.Schedule `json:"schedule"`
	Cut   *Cut           `json:"cut,omitempty"`
	// Bufio > 0: the scanner reads through a bufio.Reader of that size wrapped
	// around the simulated reader.
	Bufio int `json:"bufio,omitempty"`
	// Tree: GuessPaths and AnalyzeSources are on, over the static directory
	// tree (StaticTree) in which the source paths the generator uses resolve.
	Tree bool `json:"tree,omitempty"`
	// NameArgs mirrors Opts.NameArguments.
	NameArgs bool `json:"name_args"`
	// Extra carries engine-specific material (map orders, task scripts…).
	Extra json.RawMessage `json:"extra,omitempty"`
	// Text is the rendered stream, for the reader of a replay file only.
	Text string `json:"stream_text,omitempty"`
}

// Violation is one failed oracle clause.
type Violation struct {
	Prop   string `json:"property"`
	Clause string `json:"clause"`
	Msg    string `json:"message"`
	// Known is the id of the known finding that explains it ("" = none).
	Known string `json:"known_finding,omitempty"`
	Case  *Case  `json:"case"`
}

func (v *Violation) String() string {
	return fmt.Sprintf("%s %s: %s", v.Prop, v.Clause, v.Msg)
}

// Stream renders the case's stream.
func (c *Case) Stream() *gen.Stream {
	if c.Doc != nil {
		return gen.Render(c.Doc)
	}
	return &gen.Stream{Bytes: c.Raw}
}

// Opts builds the library options of a case. No disk access: the claimed
// stream properties do not involve it.
func (c *Case) Opts() *stack.Opts {
	if c.Tree {
		goroot, gopaths := StaticTree()
		return &stack.Opts{NameArguments: c.NameArgs, GuessPaths: true, AnalyzeSources: true, LocalGOROOT: goroot, LocalGOPATHs: gopaths}
	}
	return &stack.Opts{NameArguments: c.NameArgs}
}

// ---- running the system under test ----------------------------------------

// CallRes is what one ScanSnapshot call did.
type CallRes struct {
	Snap     *stack.Snapshot
	Suffix   []byte
	Err      error
	Fwd      []byte // bytes forwarded to the writer during this call
	Panic    string
	OffAfter int // offset of the underlying SimReader after the call
}

// ErrKey classifies an error for comparison.
func ErrKey(err error) string {
	switch {
	case err == nil:
		return "nil"
	case err == io.EOF:
		return "EOF"
	}
	if _, ok := err.(*iosim.InjectedError); ok || err == io.ErrUnexpectedEOF {
		return "injected"
	}
	return "err:" + err.Error()
}

// ScanOnce performs one call, recovering a panic.
func ScanOnce(in io.Reader, w *iosim.SimWriter, opts *stack.Opts) (res CallRes) {
	before := len(w.Buf)
	defer func() {
		if p := recover(); p != nil {
			res.Panic = fmt.Sprintf("%v\n%s", p, trimStack(debug.Stack()))
		}
		res.Fwd = append([]byte(nil), w.Buf[before:]...)
	}()
	res.Snap, res.Suffix, res.Err = stack.ScanSnapshot(in, w, opts)
	return
}

func trimStack(b []byte) string {
	s := string(b)
	if i := strings.Index(s, "panic("); i >= 0 {
		s = s[i:]
	}
	if len(s) > 1500 {
		s = s[:1500] + "…"
	}
	return s
}

// LoopRes is the result of the documented resume loop.
type LoopRes struct {
	Calls []CallRes
	// Out is everything the protocol emitted: writer bytes, then the last
	// remainder; Rest is what was never read from the reader (non-empty only
	// when the loop stopped on an error).
	Out      []byte
	Rest     []byte
	StopErr  error
	Exceeded bool // call budget exceeded (the loop did not terminate)
	NoProg   bool // a call returned nil error without consuming anything
	Panic    string
}

// Snaps returns the non-nil snapshots in order.
func (l *LoopRes) Snaps() []*stack.Snapshot {
	var o []*stack.Snapshot
	for _, c := range l.Calls {
		if c.Snap != nil {
			o = append(o, c.Snap)
		}
	}
	return o
}

// ScanLoop runs the resume protocol of internal.process / Example_stream:
// call; on nil error prepend the remainder to the rest of the input and call
// again; on any error emit the remainder and stop.
func ScanLoop(sr *iosim.SimReader, w *iosim.SimWriter, opts *stack.Opts, maxCalls int, hook func(call int, res *CallRes)) *LoopRes {
	lr := &LoopRes{}
	var in io.Reader = sr
	if sr.Front != nil {
		in = sr.Front
	}
	front := in
	pending := 0 // bytes of suffix in front of sr
	for call := 0; ; call++ {
		if call >= maxCalls {
			lr.Exceeded = true
			break
		}
		w.Call = call
		offBefore := sr.Offset()
		res := ScanOnce(in, w, opts)
		res.OffAfter = sr.Offset()
		lr.Calls = append(lr.Calls, res)
		if hook != nil {
			hook(call, &res)
		}
		if res.Panic != "" {
			lr.Panic = res.Panic
			break
		}
		if res.Err == nil {
			// progress: total unconsumed must shrink
			consumed := pending + (sr.Offset() - offBefore) - len(res.Suffix)
			if consumed <= 0 {
				lr.NoProg = true
				break
			}
			pending = len(res.Suffix)
			in = io.MultiReader(bytes.NewReader(res.Suffix), front)
			continue
		}
		lr.StopErr = res.Err
		w.Write(res.Suffix)
		break
	}
	lr.Out = w.Buf
	lr.Rest = sr.Unread()
	return lr
}

// ---- comparing snapshots ---------------------------------------------------

// SnapEqual is a deep comparison.
func SnapEqual(a, b *stack.Snapshot) bool { return reflect.DeepEqual(a, b) }

// GoroutinesEqual is a deep comparison of goroutine lists.
func GoroutinesEqual(a, b []*stack.Goroutine) bool { return reflect.DeepEqual(a, b) }

// Describe renders a snapshot compactly for messages.
func Describe(s *stack.Snapshot) string {
	if s == nil {
		return "<nil>"
	}
	var b strings.Builder
	for i, g := range s.Goroutines {
		if i > 0 {
			b.WriteString(" | ")
		}
		fmt.Fprintf(&b, "g%d[%s]", g.ID, g.State)
		for _, c := range g.Stack.Calls {
			fmt.Fprintf(&b, " %s(%s)@%s:%d", c.Func.Complete, c.Args.String(), c.SrcName, c.Line)
		}
		if g.Stack.Elided {
			b.WriteString(" …")
		}
		for _, c := range g.CreatedBy.Calls {
			fmt.Fprintf(&b, " by %s@%s:%d", c.Func.Complete, c.SrcName, c.Line)
		}
	}
	s2 := b.String()
	if len(s2) > 600 {
		s2 = s2[:600] + "…"
	}
	return s2
}

// DiffGoroutine says where two goroutines differ (first difference).
func DiffGoroutine(a, b *stack.Goroutine) string {
	if a == nil || b == nil {
		return fmt.Sprintf("nil vs non-nil (%v, %v)", a == nil, b == nil)
	}
	va, vb := reflect.ValueOf(*a), reflect.ValueOf(*b)
	return diffValue("", va, vb)
}

func diffValue(path string, a, b reflect.Value) string {
	if a.Kind() != b.Kind() {
		return path + ": kind"
	}
	switch a.Kind() {
	case reflect.Struct:
		for i := 0; i < a.NumField(); i++ {
			if a.Type().Field(i).Name == "_" {
				continue
			}
			if d := diffValue(path+"."+a.Type().Field(i).Name, a.Field(i), b.Field(i)); d != "" {
				return d
			}
		}
	case reflect.Slice:
		if a.Len() != b.Len() {
			return fmt.Sprintf("%s: len %d vs %d", path, a.Len(), b.Len())
		}
		for i := 0; i < a.Len(); i++ {
			if d := diffValue(fmt.Sprintf("%s[%d]", path, i), a.Index(i), b.Index(i)); d != "" {
				return d
			}
		}
	case reflect.String:
		if a.String() != b.String() {
			return fmt.Sprintf("%s: %q vs %q", path, clip(a.String(), 80), clip(b.String(), 80))
		}
	case reflect.Bool:
		if a.Bool() != b.Bool() {
			return fmt.Sprintf("%s: %v vs %v", path, a.Bool(), b.Bool())
		}
	case reflect.Int, reflect.Int64:
		if a.Int() != b.Int() {
			return fmt.Sprintf("%s: %d vs %d", path, a.Int(), b.Int())
		}
	case reflect.Uint64:
		if a.Uint() != b.Uint() {
			return fmt.Sprintf("%s: %#x vs %#x", path, a.Uint(), b.Uint())
		}
	}
	return ""
}

// DiffSnap says where two snapshots differ.
func DiffSnap(a, b *stack.Snapshot) string {
	if a == nil || b == nil {
		return fmt.Sprintf("snapshot nil=%v vs nil=%v", a == nil, b == nil)
	}
	if len(a.Goroutines) != len(b.Goroutines) {
		return fmt.Sprintf("%d vs %d goroutines", len(a.Goroutines), len(b.Goroutines))
	}
	for i := range a.Goroutines {
		if d := DiffGoroutine(a.Goroutines[i], b.Goroutines[i]); d != "" {
			return fmt.Sprintf("goroutine[%d]%s", i, d)
		}
	}
	if !reflect.DeepEqual(a, b) {
		return "snapshot fields other than Goroutines differ"
	}
	return ""
}

func clip(s string, n int) string {
	if len(s) > n {
		return s[:n] + "…"
	}
	return s
}

// Clip shortens bytes for messages.
func Clip(b []byte, n int) string {
	if len(b) > n {
		return fmt.Sprintf("%q…(%d bytes)", b[:n], len(b))
	}
	return fmt.Sprintf("%q", b)
}

// FirstDiff returns the first offset where a and b differ (or -1).
func FirstDiff(a, b []byte) int {
	n := len(a)
	if len(b) < n {
		n = len(b)
	}
	for i := 0; i < n; i++ {
		if a[i] != b[i] {
			return i
		}
	}
	if len(a) != len(b) {
		return n
	}
	return -1
}

// StripNames clears pointer pseudo-names in a deep copy of goroutines.
func StripNames(gs []*stack.Goroutine) []*stack.Goroutine {
	out := make([]*stack.Goroutine, len(gs))
	for i, g := range gs {
		c := CloneGoroutine(g)
		for j := range c.Stack.Calls {
			stripArgs(&c.Stack.Calls[j].Args)
		}
		for j := range c.CreatedBy.Calls {
			stripArgs(&c.CreatedBy.Calls[j].Args)
		}
		out[i] = c
	}
	return out
}

func stripArgs(a *stack.Args) {
	for i := range a.Values {
		a.Values[i].Name = ""
		if a.Values[i].IsAggregate {
			stripArgs(&a.Values[i].Fields)
		}
	}
}

// CloneGoroutine deep-copies through JSON-free reflection-free code.
func CloneGoroutine(g *stack.Goroutine) *stack.Goroutine {
	c := *g
	c.Stack = cloneStack(g.Stack)
	c.CreatedBy = cloneStack(g.CreatedBy)
	return &c
}

func cloneStack(s stack.Stack) stack.Stack {
	o := s
	if s.Calls != nil {
		o.Calls = make([]stack.Call, len(s.Calls))
		for i, c := range s.Calls {
			o.Calls[i] = c
			o.Calls[i].Args = cloneArgs(c.Args)
		}
	}
	return o
}

func cloneArgs(a stack.Args) stack.Args {
	o := a
	if a.Values != nil {
		o.Values = make([]stack.Arg, len(a.Values))
		for i, v := range a.Values {
			o.Values[i] = v
			if v.IsAggregate {
				o.Values[i].Fields = cloneArgs(v.Fields)
			}
		}
	}
	if a.Processed != nil {
		o.Processed = append([]string(nil), a.Processed...)
	}
	return o
}

// ---- coverage accounting ---------------------------------------------------

// Cov accumulates what a batch of runs covered. All maps are only ever
// iterated after sorting their keys.
type Cov struct {
	Evaluations int            `json:"evaluations"`
	Steps       uint64         `json:"steps"` // intercepted events (logical time)
	Distinct    map[string]int `json:"-"`     // hash of (input, schedule) for non-trivial cases
	Inputs      map[string]int `json:"-"`
	Faults      iosim.Stats    `json:"faults"`
	States      map[string]int `json:"reader_states"`
	Probes      map[string]int `json:"probes"`
	Samples     []any          `json:"-"`
	// Digest chains hashes of observable results (process independence).
	Digest string `json:"result_digest"`
}

// AddDigest folds a result hash into the chain.
func (c *Cov) AddDigest(h string) { c.Digest = core.Hash([]byte(c.Digest), []byte(h)) }

// NewCov allocates.
func NewCov() *Cov {
	return &Cov{Distinct: map[string]int{}, Inputs: map[string]int{}, States: map[string]int{}, Probes: map[string]int{}}
}

// Probe counts a "this rare condition was reached" event.
func (c *Cov) Probe(name string) { c.Probes[name]++ }

// Merge adds o into c.
func (c *Cov) Merge(o *Cov) {
	c.Evaluations += o.Evaluations
	c.Steps += o.Steps
	c.Faults.Add(o.Faults)
	for _, k := range SortedKeys(o.Distinct) {
		c.Distinct[k] += o.Distinct[k]
	}
	for _, k := range SortedKeys(o.Inputs) {
		c.Inputs[k] += o.Inputs[k]
	}
	for _, k := range SortedKeys(o.States) {
		c.States[k] += o.States[k]
	}
	for _, k := range SortedKeys(o.Probes) {
		c.Probes[k] += o.Probes[k]
	}
	for _, s := range o.Samples {
		if len(c.Samples) < 6 {
			c.Samples = append(c.Samples, s)
		}
	}
}

// SortedKeys returns the keys of a string-keyed map in order.
func SortedKeys[V any](m map[string]V) []string {
	k := make([]string, 0, len(m))
	for s := range m {
		k = append(k, s)
	}
	sort.Strings(k)
	return k
}

// Note records one executed case. inputHash is the hash of the stream bytes
// (computed once per stream by the caller).
func (c *Cov) Note(inputHash string, sched iosim.Schedule, hasDump bool, extra string) {
	c.Evaluations++
	if hasDump && (sched.Nontrivial() || extra != "") {
		c.Distinct[core.Hash([]byte(inputHash), []byte(sched.Key()), []byte(extra))]++
	}
}

func clipS(s string, n int) string {
	if len(s) > n {
		return s[:n] + "…"
	}
	return s
}

// NoteReader folds a reader's reach counters into the coverage.
func (c *Cov) NoteReader(sr *iosim.SimReader) {
	c.Faults.Add(sr.Stats)
	for w := range sr.States {
		for p := range sr.States[w] {
			for k, n := range sr.States[w][p] {
				if n > 0 {
					c.States[iosim.StateNames[0][w]+"/"+iosim.StateNames[1][p]+"/"+iosim.StateNames[2][k]] += n
				}
			}
		}
	}
}

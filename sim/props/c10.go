package props

import (
	"bytes"
	"fmt"
	"io"
	"reflect"
	"sort"
	"strings"

	"github.com/maruel/panicparse/v2/stack"

	"verifsim/core"
	"verifsim/gen"
	"verifsim/iosim"
)

// ---- C10: truncation and read failure at every byte offset ------------------
//
// Fault enumeration: for a generated stream with one dump, every cut offset k
// x {EOF, error} x {alone, together with the last data} x {one-shot, chunked
// pre-cut delivery}.

func cutSchedule(pre iosim.Schedule, cut *Cut) iosim.Schedule {
	var st []iosim.Step
	tot := 0
	for _, x := range pre.Steps {
		switch x.Op {
		case "w":
			if tot+x.N > cut.K {
				x.N = cut.K - tot
			}
			if x.N > 0 {
				st = append(st, x)
				tot += x.N
			}
		case "z":
			st = append(st, x)
		}
	}
	if tot < cut.K {
		st = append(st, iosim.Step{Op: "w", N: cut.K - tot})
	}
	st = append(st, iosim.Step{Op: cut.Kind, With: cut.With})
	return iosim.Schedule{Steps: st, Short: pre.Short}
}

type cutRun struct {
	res CallRes
	sr  *iosim.SimReader
}

func runCut(b []byte, pre iosim.Schedule, cut *Cut, oc *Case, cov *Cov) cutRun {
	clk := &core.Clock{}
	sr := iosim.NewSimReader(b[:cut.K], cutSchedule(pre, cut), clk)
	sr.FailErr = iosim.FailErrFor(cut.Err)
	sr.ForgetFail = cut.Once
	w := iosim.NewSimWriter(clk)
	res := ScanOnce(sr, w, oc.Opts())
	res.OffAfter = sr.Offset()
	if cov != nil {
		cov.Steps += clk.Now()
		cov.NoteReader(sr)
		cov.Faults.Writes += w.Writes
	}
	return cutRun{res: res, sr: sr}
}

// frameEnds returns, for goroutine gi of dump di, the offset at which its
// header line ends and the offsets at which each frame (function + file line)
// ends.
func frameEnds(s *gen.Stream, doc *gen.Doc, di *gen.DumpInfo, gi int) (hdrEnd int, ends []int) {
	var lines []gen.Line
	for li := di.FirstLine; li <= di.LastLine; li++ {
		if s.Lines[li].Gor == gi {
			lines = append(lines, s.Lines[li])
		}
	}
	if len(lines) == 0 {
		return 0, nil
	}
	hdrEnd = lines[0].End
	g := doc.Items[di.Item].Gors[gi]
	idx := 1
	if g.Unavail {
		idx++
	}
	for range g.Frames {
		if idx+1 < len(lines) {
			ends = append(ends, lines[idx+1].End)
		}
		idx += 2
	}
	return
}

// CheckC10 executes one cut case (and the companion runs its clauses need).
func CheckC10(c *Case, cov *Cov) []*Violation {
	if c.Mode == "cutloop" {
		return checkC10Loop(c, cov)
	}
	s := c.Stream()
	b := s.Bytes
	if c.Cut == nil {
		return nil
	}
	if c.Cut.K > len(b) {
		c.Cut.K = len(b)
	}
	// uncut reference: the same stream, never cut, one-shot delivery
	ref := runCut(b, iosim.Schedule{}, &Cut{K: len(b), Kind: "close"}, c, nil)
	return checkCut(c, s, ref, cov)
}

func checkCut(c *Case, s *gen.Stream, ref cutRun, cov *Cov) []*Violation {
	b := s.Bytes
	cut := c.Cut
	var vs []*Violation
	add := func(clause, known, msg string) {
		vs = append(vs, &Violation{Prop: "C10", Clause: "C10." + clause, Msg: fmt.Sprintf("cut at %d (%s, with data=%v): %s", cut.K, cut.Kind, cut.With, msg), Case: c, Known: known})
	}
	if ref.res.Panic != "" {
		add("panic", "", "the uncut stream panics: "+ref.res.Panic)
		return vs
	}
	run := runCut(b, c.Sched, cut, c, cov)
	res := run.res
	if res.Panic != "" {
		add("panic", "", res.Panic)
		return vs
	}
	errk := ErrKey(res.Err)
	// last delivered line: unterminated and inside a dump region?
	li := s.LineAt(cut.K)
	fragInDump := false
	fragStart := cut.K
	if li < len(s.Lines) && s.Lines[li].Start < cut.K {
		fragStart = s.Lines[li].Start
		fragInDump = s.Lines[li].Class == gen.Dump
	} else if li > 0 && !s.Lines[li-1].Term && s.Lines[li-1].End == cut.K {
		// the stream's own last line is unterminated
		fragStart = s.Lines[li-1].Start
		fragInDump = s.Lines[li-1].Class == gen.Dump
	}
	frag := b[fragStart:cut.K]
	if len(frag) > 0 && !fragInDump {
		// A fragment on the line that directly follows a dump (or its single
		// blank separator) is still "the goroutine that was cut" as far as any
		// scanner can tell: nothing has terminated the dump yet.
		fl := s.LineAt(fragStart)
		for di := range s.Dumps {
			d := &s.Dumps[di]
			if d.Race {
				continue
			}
			if fl == d.LastLine+1 || (fl == d.LastLine+2 && s.Lines[d.LastLine+1].Blank) {
				fragInDump = true
			}
		}
	}
	switch cut.Kind {
	case "close":
		switch {
		case errk == "nil" || errk == "EOF":
		case errk == "injected":
			add("err-eof", "", "a plain end of stream was reported as a reader failure")
		default:
			if !(len(frag) > 0 && fragInDump) {
				add("err-eof", "", fmt.Sprintf("a plain end of stream outside any cut goroutine was reported as %s", errk))
			}
		}
	case "fail":
		if res.Err != run.sr.FailErr {
			// allowed only when the call legitimately finished before it needed
			// the failing read: then it must behave exactly like the EOF variant,
			// and must not have ended at the unterminated fragment.
			alt := *cut
			alt.Kind = "close"
			ac := *c
			ac.Cut = &alt
			cr := runCut(b, c.Sched, &alt, c, nil)
			ck := ErrKey(cr.res.Err)
			rem := append(append([]byte(nil), res.Suffix...), run.sr.Unread()...)
			endedAtFragment := len(frag) > 0 && bytes.Equal(rem, frag)
			switch {
			case errk == "nil" && ck == "nil":
			case errk == ck && ck != "EOF" && !endedAtFragment && bytes.Contains(rem, []byte("\n")):
			default:
				add("err-identity", "", fmt.Sprintf("the reader failed with the injected error but ScanSnapshot returned %s (the EOF variant of the same cut returns %s)", errk, ck))
			}
		}
	}
	// forwarded bytes: a prefix of what the uncut stream forwards
	if !bytes.HasPrefix(ref.res.Fwd, res.Fwd) {
		known := ""
		// KF-2: the cut falls inside the line(s) that open a dump; what is
		// forwarded in excess is exactly the unterminated beginning of that dump
		if ds, ok := dumpOpeningStart(s, fragStart); ok && len(frag) > 0 && bytes.HasPrefix(res.Fwd, ref.res.Fwd) {
			sur := res.Fwd[len(ref.res.Fwd):]
			// either including the fragment (it was passed through) or up to it
			// (it was rejected with a parse error and sits in the remainder)
			if bytes.Equal(sur, b[ds:cut.K]) || bytes.Equal(sur, b[ds:fragStart]) {
				known = "KF-2"
			}
		}
		add("forward-prefix", known, fmt.Sprintf("forwarded %s is not a prefix of what the uncut stream forwards (%s); surplus %s", Clip(res.Fwd, 80), Clip(ref.res.Fwd, 80), Clip(surplus(res.Fwd, ref.res.Fwd), 80)))
	}
	// complete goroutines
	//
	// With path guessing and source augmentation on (c.Tree), part of what a
	// goroutine holds is inferred from the whole snapshot (the remote roots are
	// found from all frames), so a cut legitimately changes it, like the pointer
	// pseudo-names. What must still hold there: the outcome is a function of the
	// bytes delivered, not of HOW the stream ended - a cut signalled as a reader
	// failure yields the same goroutines, with everything guessed and
	// augmented, as the same cut signalled as a plain end of stream.
	if c.Tree {
		if cut.Kind != "fail" {
			return vs
		}
		alt := *cut
		alt.Kind = "close"
		ar := runCut(b, c.Sched, &alt, c, nil)
		ref = ar
		n0 := len(vs)
		defer func() {
			for _, v := range vs[n0:] {
				v.Msg = strings.ReplaceAll(v.Msg, "the uncut scan", "the same cut signalled as a plain end of stream (path guessing and source augmentation on)")
			}
		}()
	}
	// a snapshot that is returned can be used: the first thing the command
	// does with one is IsRace(), then Aggregate
	if res.Snap != nil {
		if p := usable(res.Snap); p != "" {
			add("unusable-snapshot", "", fmt.Sprintf("ScanSnapshot returned a snapshot (%d goroutines, error %s) on which the command's next calls panic: %s", len(res.Snap.Goroutines), errk, p))
		}
	}
	if len(s.Dumps) > 0 && ref.res.Snap != nil {
		di := &s.Dumps[0]
		refG := StripNames(ref.res.Snap.Goroutines)
		var gotG []*stack.Goroutine
		if res.Snap != nil {
			gotG = StripNames(res.Snap.Goroutines)
		}
		started := 0
		for gi := range di.GorEnd {
			if di.GorEnd[gi] <= cut.K {
				if gi >= len(refG) {
					break
				}
				if gi >= len(gotG) {
					add("complete-goroutines", "", fmt.Sprintf("goroutine #%d (id %d) lies entirely before the cut but is missing (%d goroutines returned, error %s)", gi, di.IDs[gi], len(gotG), errk))
					break
				}
				if !reflect.DeepEqual(refG[gi], gotG[gi]) {
					add("complete-goroutines", "", fmt.Sprintf("goroutine #%d (id %d) lies entirely before the cut but differs from the uncut scan: %s", gi, di.IDs[gi], DiffGoroutine(refG[gi], gotG[gi])))
					break
				}
			}
		}
		// how many goroutines can have started before the cut
		for li := di.FirstLine; li <= di.LastLine; li++ {
			l := s.Lines[li]
			if l.Gor >= 0 && l.Start < cut.K && (li == di.FirstLine || s.Lines[li-1].Gor != l.Gor) {
				if l.Gor+1 > started {
					started = l.Gor + 1
				}
			}
		}
		if len(gotG) > started {
			add("complete-goroutines", "", fmt.Sprintf("%d goroutines returned but only %d had started before the cut", len(gotG), started))
		}
		// race report: a goroutine whose operation section ended before the cut
		// already has its final id, access kind, address and operation stack,
		// even if its creation section has not arrived yet
		if di.Race {
			for gi := range di.OpEnd {
				if di.OpEnd[gi] <= cut.K && di.GorEnd[gi] > cut.K && gi < len(gotG) && gi < len(refG) {
					a, g := refG[gi], gotG[gi]
					if a.ID != g.ID || a.RaceWrite != g.RaceWrite || a.RaceAddr != g.RaceAddr || a.First != g.First || !reflect.DeepEqual(a.Stack, g.Stack) {
						add("partial-goroutine", "", fmt.Sprintf("race report goroutine #%d: its operation section ended before the cut but id/access/address/stack differ from the uncut scan: %s", gi, DiffGoroutine(&stack.Goroutine{Signature: stack.Signature{Stack: a.Stack}, ID: a.ID, RaceWrite: a.RaceWrite, RaceAddr: a.RaceAddr, First: a.First}, &stack.Goroutine{Signature: stack.Signature{Stack: g.Stack}, ID: g.ID, RaceWrite: g.RaceWrite, RaceAddr: g.RaceAddr, First: g.First})))
						break
					}
				} else if di.OpEnd[gi] <= cut.K && gi >= len(gotG) {
					add("complete-goroutines", "", fmt.Sprintf("race report goroutine #%d: its operation section lies before the cut but the goroutine is missing (%d returned)", gi, len(gotG)))
					break
				}
			}
		}
		// the partial goroutine of a goroutine dump: what ended before the cut
		// must match
		if !di.Race && c.Doc != nil {
			// a goroutine whose header line ended before the cut is the one being
			// read (or an earlier one): it may be partial, it may not be absent
			for gi := range di.GorEnd {
				if di.GorEnd[gi] > cut.K && gi >= len(gotG) && gi < len(refG) {
					if hdrEnd, _ := frameEnds(s, c.Doc, di, gi); hdrEnd <= cut.K {
						add("partial-goroutine", "", fmt.Sprintf("goroutine #%d: its header line ended before the cut but the goroutine is missing (%d returned, snapshot nil=%v, error %s)", gi, len(gotG), res.Snap == nil, errk))
					}
					break
				}
			}
			for gi := range di.GorEnd {
				if di.GorEnd[gi] > cut.K && gi < len(gotG) && gi < len(refG) {
					hdrEnd, ends := frameEnds(s, c.Doc, di, gi)
					if hdrEnd <= cut.K {
						a, g := refG[gi], gotG[gi]
						if a.ID != g.ID || a.State != g.State || a.SleepMin != g.SleepMin || a.SleepMax != g.SleepMax || a.Locked != g.Locked || a.First != g.First {
							add("partial-goroutine", "", fmt.Sprintf("goroutine #%d: header lies before the cut but its fields differ: %s", gi, DiffGoroutine(a, g)))
						}
						for fi, e := range ends {
							if e <= cut.K {
								if fi >= len(g.Stack.Calls) || fi >= len(a.Stack.Calls) {
									add("partial-goroutine", "", fmt.Sprintf("goroutine #%d: frame %d ended before the cut but is missing", gi, fi))
									break
								}
								if !reflect.DeepEqual(a.Stack.Calls[fi], g.Stack.Calls[fi]) {
									add("partial-goroutine", "", fmt.Sprintf("goroutine #%d: frame %d ended before the cut but differs: %s", gi, fi, diffValue("", reflect.ValueOf(a.Stack.Calls[fi]), reflect.ValueOf(g.Stack.Calls[fi]))))
									break
								}
							}
						}
					}
					break
				}
			}
		}
	}
	return vs
}

// errKind picks the error value of a failing cut: the plain injected error at
// most offsets, one that wraps io.EOF and io.ErrUnexpectedEOF at the others
// (the identity of the reader's error must survive whatever it is or wraps).
func errKind(kind string, k int) string {
	if kind != "fail" {
		return ""
	}
	return []string{"", "wraps-eof", "", "unexpected-eof", "wraps-eof"}[k%5]
}

func surplus(got, ref []byte) []byte {
	d := FirstDiff(got, ref)
	if d < 0 {
		return nil
	}
	return got[d:]
}

// dumpOpeningStart: the line starting at off is the first goroutine header of
// a goroutine dump, or one of the two header lines of a race report. Returns
// the offset at which that dump starts.
func dumpOpeningStart(s *gen.Stream, off int) (int, bool) {
	for _, d := range s.Dumps {
		if off == d.Start {
			return d.Start, true
		}
		// a race report is only confirmed by its third line (the first
		// operation header)
		for k := 1; k <= 2; k++ {
			if d.Race && d.FirstLine+k < len(s.Lines) && off == s.Lines[d.FirstLine+k].Start {
				return d.Start, true
			}
		}
	}
	return 0, false
}

func checkC10Loop(c *Case, cov *Cov) []*Violation {
	s := c.Stream()
	b := s.Bytes
	if c.Cut.K > len(b) {
		c.Cut.K = len(b)
	}
	clk := &core.Clock{}
	sr := iosim.NewSimReader(b[:c.Cut.K], cutSchedule(c.Sched, c.Cut), clk)
	sr.FailErr = iosim.FailErrFor(c.Cut.Err)
	sr.ForgetFail = c.Cut.Once
	w := iosim.NewSimWriter(clk)
	lr := ScanLoop(sr, w, c.Opts(), bytes.Count(b[:c.Cut.K], []byte("\n"))+3, nil)
	if cov != nil {
		cov.Steps += clk.Now()
		cov.NoteReader(sr)
	}
	var vs []*Violation
	add := func(clause, msg string) {
		vs = append(vs, &Violation{Prop: "C10", Clause: "C10." + clause, Msg: fmt.Sprintf("resume loop over the stream cut at %d (%s, with data=%v): %s", c.Cut.K, c.Cut.Kind, c.Cut.With, msg), Case: c})
	}
	switch {
	case lr.Panic != "":
		add("panic", lr.Panic)
	case lr.Exceeded || lr.NoProg:
		add("loop-progress", fmt.Sprintf("does not terminate: %d calls, exceeded=%v, call without progress=%v", len(lr.Calls), lr.Exceeded, lr.NoProg))
	case c.Cut.Kind == "fail" && lr.StopErr != sr.FailErr:
		// the loop only stops on an error; if that is not the injected one it
		// must be a parse error that ended the loop before the failing read
		if lr.StopErr == io.EOF || lr.StopErr == nil {
			add("err-identity", fmt.Sprintf("the reader failed with the injected error but the loop ended with %s", ErrKey(lr.StopErr)))
		}
	}
	return vs
}

// RunC10 is one simulated run: one stream, every cut.
func RunC10(r *core.Rng, run uint64, seed uint64, tier string, cov *Cov) []*Violation {
	cfg := gen.DefaultCfg(r)
	cfg.MinDumps, cfg.MaxDumps = 1, 1
	cfg.Long, cfg.VeryLong = r.Chance(0.06), false
	if cfg.MaxJunk > 2 {
		cfg.MaxJunk = 2
	}
	if r.Chance(0.1) {
		cfg.MinDumps, cfg.MaxDumps = 0, 0
	}
	doc := gen.Generate(r, cfg)
	if r.Chance(0.05) {
		// a pass-through line longer than the 16 KiB buffer in front of the dump
		// (non-repeating content, so that a lost piece is visible)
		n := []int{16384, 32768, 49152}[r.Intn(3)] + r.Range(-2, 4000)
		var sb strings.Builder
		for i := 0; sb.Len() < n; i++ {
			fmt.Fprintf(&sb, "%d,", i)
		}
		doc.Items = append([]gen.Item{{Kind: "junk", Text: "L:" + sb.String()[:n] + "$\n"}}, doc.Items...)
	}
	s := gen.Render(doc)
	b := s.Bytes
	nameArgs := r.Chance(0.5)
	// a quarter of the runs with path guessing and source augmentation on, over
	// a tree in which the generated source paths resolve: what these add to a
	// goroutine belongs to "identical to what the uncut stream yields" too
	tree := r.Chance(0.25)
	if tree {
		cov.Probe("guess-paths-and-sources")
	}
	ih := core.Hash(b)
	cov.Inputs[ih]++
	ref := runCut(b, iosim.Schedule{}, &Cut{K: len(b), Kind: "close"}, &Case{NameArgs: nameArgs, Tree: tree}, nil)
	// one seeded chunking used for the "chunked" pre-cut delivery
	chunked := iosim.Random(r, len(b), iosim.RandomOpts{MeanChunk: []float64{1.5, 7, 40}[r.Intn(3)], PZero: 0.05, PShort: 0.1, Hot: hotOffsets(s), PHot: 0.3})
	var pre []iosim.Step
	for _, st := range chunked.Steps {
		if st.Op == "w" || st.Op == "z" {
			pre = append(pre, st)
		}
	}
	chunked.Steps = pre
	var vs []*Violation
	seen := map[string]bool{}
	hasDump := len(s.Dumps) > 0
	// every offset; for streams with lines around the 16 KiB buffer size the
	// inside of those lines is sampled (around 16384*m and at random)
	offsets := make([]int, 0, len(b)+1)
	if len(b) <= 8192 {
		for k := 0; k <= len(b); k++ {
			offsets = append(offsets, k)
		}
	} else {
		cov.Probe("long-line-stream")
		for _, l := range s.Lines {
			if l.End-l.Start <= 600 {
				for k := l.Start; k < l.End; k++ {
					offsets = append(offsets, k)
				}
				continue
			}
			for k := l.Start; k < l.Start+40; k++ {
				offsets = append(offsets, k)
			}
			for m := 16384; m < l.End-l.Start+4; m += 16384 {
				for d := -3; d <= 3; d++ {
					if k := l.Start + m + d; k > l.Start+40 && k < l.End-40 {
						offsets = append(offsets, k)
					}
				}
			}
			for i := 0; i < 60; i++ {
				offsets = append(offsets, r.Range(l.Start+40, l.End-41))
			}
			for k := l.End - 40; k < l.End; k++ {
				offsets = append(offsets, k)
			}
		}
		offsets = append(offsets, len(b))
		sort.Ints(offsets)
	}
	for _, k := range offsets {
		for _, kind := range []string{"close", "fail"} {
			for _, with := range []bool{false, true} {
				for di, pre := range []iosim.Schedule{{}, chunked} {
					if di == 1 && k%2 == 1 && len(b) > 1500 {
						continue // chunked variant on every other offset for larger streams
					}
					c := &Case{Prop: "C10", Run: run, Seed: seed, Mode: "cut", Doc: doc, Sched: pre, Cut: &Cut{K: k, Kind: kind, With: with, Err: errKind(kind, k), Once: kind == "fail" && with && k%3 == 1}, NameArgs: nameArgs, Tree: tree}
					cov.Evaluations++
					if hasDump {
						cov.Distinct[core.Hash([]byte(ih), []byte(fmt.Sprint(k, kind, with, di)))]++
					}
					for _, v := range checkCut(c, s, ref, cov) {
						key := v.Clause + "/" + v.Known
						if !seen[key] {
							seen[key] = true
							vs = append(vs, v)
						}
					}
				}
			}
		}
		// the resume loop at sampled offsets
		if k%7 == int(run%7) {
			c := &Case{Prop: "C10", Run: run, Seed: seed, Mode: "cutloop", Doc: doc, Sched: chunked, Cut: &Cut{K: k, Kind: []string{"close", "fail"}[k%2], With: k%3 == 0, Err: errKind([]string{"close", "fail"}[k%2], k/2)}, NameArgs: nameArgs, Tree: tree}
			cov.Evaluations++
			for _, v := range checkC10Loop(c, cov) {
				if !seen[v.Clause] {
					seen[v.Clause] = true
					vs = append(vs, v)
				}
			}
		}
	}
	if len(cov.Samples) < 2 {
		cov.Samples = append(cov.Samples, map[string]any{"stream": Clip(b, 400), "bytes": len(b), "cut_offsets": len(b) + 1, "cut_kinds": "close|fail x with/without data x one-shot|chunked", "chunked_schedule": clipS(chunked.Key(), 200)})
	}
	return vs
}

func init() {
	register(&Spec{
		ID: "C10", Level: "fault_enumeration",
		Run:   RunC10,
		Check: CheckC10,
		Quick: 160, Thorough: 12000,
		Rule: "per generated stream (junk, one goroutine dump or race report, junk): EVERY byte offset k in [0,len] as the cut x {EOF, injected error} x {alone, together with the last data} x {one-shot, one seeded chunking with zero/short reads before the cut}, plus the resume loop over the cut stream at every 7th offset; one evaluation = one cut run compared with the uncut scan of the same stream; distinct_nontrivial = distinct (stream, offset, kind, with-data, delivery) tuples on streams containing a dump; the offset dimension is exhaustive per stream, the stream dimension is sampled",
		Assumptions: []string{
			"streams are bounded (about 0.2-6 KiB) and drawn from the generators",
			"a junk line directly following the last frame of a dump is never one whose prefix the line grammar reads as a call/creation/elision line",
			"the web handler's maxmem truncation is exercised separately by the livesim stage of C20 (real runtime, not enumerated)",
		},
		Real:  []string{"stack.ScanSnapshot", "stack.reader", "scanner state machine incl. the unterminated-last-line path"},
		Stubs: []string{"io.Reader producer with injected end/failure (iosim.SimReader)", "io.Writer sink"},
		Probes: func() []*Case {
			doc := &gen.Doc{Items: []gen.Item{
				{Kind: "junk", Text: "before\n"},
				{Kind: "dump", EOL: "\n", Gors: []gen.Gor{{ID: 1, Header: "goroutine 1 [running]:", Frames: []gen.Frame{{Func: "main.main()", File: "\t/tmp/x.go:3 +0x1"}}}}},
			}}
			return []*Case{{Prop: "C10", Mode: "cut", Doc: doc, Cut: &Cut{K: 7 + 14, Kind: "close"}, NameArgs: true}}
		},
	})
}

// usable calls what the command calls on every snapshot it gets (IsRace, then
// Aggregate on a copy of the goroutine list) and returns the panic, if any.
func usable(sn *stack.Snapshot) (pan string) {
	defer func() {
		if p := recover(); p != nil {
			pan = fmt.Sprint(p)
		}
	}()
	_ = sn.IsRace()
	cp := *sn
	cp.Goroutines = append([]*stack.Goroutine(nil), sn.Goroutines...)
	_ = cp.Aggregate(stack.AnyValue)
	return ""
}

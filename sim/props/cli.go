package props

import (
	"bytes"
	"encoding/json"
	"fmt"
	"io"
	"os"
	"os/exec"
	"reflect"
	"regexp"
	"runtime/debug"

	"github.com/maruel/panicparse/v2/stack"

	"verifsim/core"
	"verifsim/gen"
	"verifsim/iosim"
)

// ---- clisim: the command's own loop (internal.process) under the simulator ---
//
// internal.process is unexported and lives in an internal package, so the
// driver is a _test.go file placed into that package at build time with
// `go test -c -overlay` (nothing is added to /repo). The driver hands the
// function to CheckCLI / RunCLIBatch below as a ProcessFunc.

// ProcessFunc is internal.process with everything but the streams bound
// (no colour, base paths, no rebase, no source parsing).
type ProcessFunc func(in io.Reader, out io.Writer) error

func callProcess(proc ProcessFunc, in io.Reader, out io.Writer) (err error, pan string) {
	defer func() {
		if p := recover(); p != nil {
			pan = fmt.Sprintf("%v\n%s", p, trimStack(debug.Stack()))
		}
	}()
	return proc(in, out), ""
}

// CheckCLI executes one case against the command loop and evaluates the CLI
// clauses of prop (C02, C07 or C11).
func CheckCLI(prop string, c *Case, proc ProcessFunc, cov *Cov) []*Violation {
	s := c.Stream()
	b := s.Bytes
	var vs []*Violation
	seen := map[string]bool{}
	add := func(clause, known, msg string) {
		if seen[clause+known] {
			return
		}
		seen[clause+known] = true
		vs = append(vs, &Violation{Prop: prop, Clause: prop + "." + clause, Msg: "[pp command loop] " + msg, Case: c, Known: known})
	}
	if prop == "C09" {
		// delivery independence of the command: the same bytes under this
		// schedule and delivered at once give the same output and the same
		// error
		clk := &core.Clock{}
		sr := iosim.NewSimReader(b, c.Sched.FitTo(len(b)), clk)
		w := iosim.NewSimWriter(clk)
		err, pan := callProcess(proc, sr, w)
		clk0 := &core.Clock{}
		w0 := iosim.NewSimWriter(clk0)
		err0, pan0 := callProcess(proc, iosim.NewSimReader(b, iosim.OneShot(len(b)), clk0), w0)
		if cov != nil {
			cov.Steps += clk.Now()
			cov.NoteReader(sr)
			cov.Faults.Writes += w.Writes
			cov.Evaluations++
			cov.Probe("cli-delivery-independence")
		}
		switch {
		case pan != "" || pan0 != "":
			add("cli-panic", "", fmt.Sprintf("process() panics: under this schedule %q, delivered at once %q", pan, pan0))
		case ErrKey(err) != ErrKey(err0):
			add("cli-error", "", fmt.Sprintf("process() returns %s under this schedule and %s when the same bytes are delivered at once", ErrKey(err), ErrKey(err0)))
		case err == nil && !bytes.Equal(w.Buf, w0.Buf):
			d := FirstDiff(w.Buf, w0.Buf)
			add("cli-output", "", fmt.Sprintf("the output differs from the output for the same bytes delivered at once (%d vs %d bytes): first difference at output byte %d: this schedule %s, at once %s", len(w.Buf), len(w0.Buf), d, Clip(w.Buf[max0(min(d, len(w.Buf))-30):], 120), Clip(w0.Buf[max0(min(d, len(w0.Buf))-30):], 120)))
		}
		return vs
	}
	// rendering of each dump alone
	rend := make([][]byte, len(s.Dumps))
	for i, d := range s.Dumps {
		var o bytes.Buffer
		alone := gen.Render(gen.SubDoc(c.Doc, d.Item)).Bytes
		if err, pan := callProcess(proc, bytes.NewReader(alone), &o); pan != "" || err != nil {
			add("cli-panic", "", fmt.Sprintf("process() on dump #%d alone: err=%v panic=%s", i, err, pan))
			return vs
		}
		rend[i] = append([]byte(nil), o.Bytes()...)
	}
	pieces, del := expectedCLI(s, rend)
	want := joinPieces(pieces)
	clk := &core.Clock{}
	sr := iosim.NewSimReader(b, c.Sched.FitTo(len(b)), clk)
	w := iosim.NewSimWriter(clk)
	if prop == "C11" {
		sr.OnBlock = func(r *iosim.SimReader) {
			del := r.Delivered()
			if cov != nil {
				cov.Probe("cli-block-points")
			}
			exp, missing := expectedSoFar(s, del, rend)
			if !bytes.HasPrefix(w.Buf, exp) {
				d := FirstDiff(w.Buf, exp)
				li := missing(d)
				what := "the complete pass-through line " + Clip(s.Text(li), 80)
				if s.Lines[li].Class == gen.Dump {
					what = "the rendering of the dump starting at line " + fmt.Sprint(li)
				}
				add("withheld-line", "", fmt.Sprintf("stdin blocks after %d bytes; %s was due but is not yet in the output (%d bytes written so far, %d expected)", del, what, len(w.Buf), len(exp)))
				return
			}
			pos := 0
			for i := range s.Dumps {
				t := terminatorLine(s, &s.Dumps[i])
				if t < 0 || !s.Lines[t].Term || s.Lines[t].End > del {
					break
				}
				j := bytes.Index(w.Buf[pos:], rend[i])
				if j < 0 {
					add("snapshot-late", "", fmt.Sprintf("stdin blocks after %d bytes; the line that ends dump #%d has been delivered completely but its rendering is not yet in the output", del, i))
					return
				}
				pos += j + len(rend[i])
			}
		}
	}
	err, pan := callProcess(proc, sr, w)
	if cov != nil {
		cov.Steps += clk.Now()
		cov.NoteReader(sr)
		cov.Faults.Writes += w.Writes
		cov.Evaluations++
	}
	if pan != "" {
		add("panic", "", pan)
		return vs
	}
	if prop == "C11" {
		return vs
	}
	if err != nil {
		// the statement speaks about exit 0; a non-nil error is only wrong for
		// well-formed streams without stray race headers
		hasLook := false
		for _, l := range s.Lines {
			if l.Class == gen.Junk && isRaceLook(b[l.Start:l.End]) {
				hasLook = true
			}
		}
		if !hasLook {
			add("cli-error", "", fmt.Sprintf("process() returned %v on a stream of well-formed dumps and junk", err))
		}
		return vs
	}
	if !matchPieces(pieces, del, w.Buf, false) {
		known := ""
		if matchPieces(pieces, del, w.Buf, true) {
			known = "KF-1"
		}
		d := FirstDiff(w.Buf, want)
		clause := "cli-output"
		if prop == "C07" {
			clause = "cli-renderings"
		}
		add(clause, known, fmt.Sprintf("the output is not the input with each dump replaced by its rendering: first difference at output byte %d: got %s, want %s", d, Clip(w.Buf[max0(min(d, len(w.Buf))-30):], 120), Clip(want[max0(min(d, len(want))-30):], 120)))
	}
	return vs
}

func max0(i int) int {
	if i < 0 {
		return 0
	}
	return i
}

// CLIBatchOut is what the clisim driver prints.
type CLIBatchOut struct {
	Cov        *Cov         `json:"cov"`
	Distinct   []string     `json:"distinct"`
	Violations []*Violation `json:"violations"`
	Runs       int          `json:"runs"`
}

// RunCLIBatch runs `runs` seeded runs of prop against the command loop.
func RunCLIBatch(prop string, seed uint64, offset, stride, runs int, proc ProcessFunc) *CLIBatchOut {
	cov := NewCov()
	out := &CLIBatchOut{Cov: cov}
	seenClause := map[string]bool{}
	for i := offset; i < runs; i += stride {
		r := core.NewRng(core.Mix(seed, prop+"/cli", uint64(i)))
		cfg := gen.DefaultCfg(r)
		switch prop {
		case "C02":
			cfg.ExactRaceSep = r.Chance(0.1)
		case "C07":
			cfg.MinDumps = 1
			cfg.MaxDumps = r.Range(1, 5)
		case "C11":
			cfg.ExactRaceSep, cfg.NoWarnAfterSep = r.Chance(0.15), true
		case "C09":
			cfg.MaxDumps = r.Range(1, 4)
			cfg.ExactRaceSep = r.Chance(0.15)
		}
		cfg.VeryLong = false
		doc := gen.Generate(r, cfg)
		s := gen.Render(doc)
		ih := core.Hash(s.Bytes)
		for _, sc := range loopSchedules(r, s, 4, prop == "C11") {
			c := &Case{Prop: prop, Run: uint64(i), Seed: seed, Mode: "cli", Doc: doc, Sched: sc, NameArgs: true}
			cov.Note(ih, sc, len(s.Dumps) > 0, "cli")
			cov.Evaluations-- // CheckCLI counts it
			for _, v := range CheckCLI(prop, c, proc, cov) {
				if !seenClause[v.Clause+v.Known] && len(out.Violations) < 12 {
					seenClause[v.Clause+v.Known] = true
					out.Violations = append(out.Violations, v)
				}
			}
		}
		out.Runs++
	}
	out.Distinct = SortedKeys(cov.Distinct)
	return out
}

// HistCallWire is what the driver receives in mode "prochist" (C06, command-loop
// history stage).
type HistCallWire struct {
	In     []byte `json:"in"`
	Sim    int    `json:"sim"`
	PF     int    `json:"pf"`
	Parse  bool   `json:"parse"`
	Rebase bool   `json:"rebase"`
	Filter string `json:"filter"`
	Match  string `json:"match"`
	// Rewrite: source files rewritten in place right before this call (the disk
	// changes between two calls of one process); MtimeNs is the modification
	// time they get, in nanoseconds since the epoch.
	Rewrite []TreeFile `json:"rewrite,omitempty"`
	MtimeNs int64      `json:"mtime_ns,omitempty"`
}

// ---- glue on the vcheck side --------------------------------------------------

func clisimBin() string { return os.Getenv("VERIF_CLISIM_BIN") }

// cliCase re-executes one cli-mode case by running the clisim driver binary.
func cliCase(prop string) func(c *Case, cov *Cov) []*Violation {
	return func(c *Case, cov *Cov) []*Violation {
		bin := clisimBin()
		if bin == "" {
			panic("VERIF_CLISIM_BIN not set (run through /verif/run.sh)")
		}
		f, err := os.CreateTemp("", "clisim-case-*.json")
		if err != nil {
			panic(err)
		}
		defer os.Remove(f.Name())
		json.NewEncoder(f).Encode(c)
		f.Close()
		of := f.Name() + ".out"
		defer os.Remove(of)
		cmd := exec.Command(bin, "-test.run=^TestClisim$")
		tb := "all"
		if c.Run%2 == 1 {
			tb = ""
		}
		if v, ok := os.LookupEnv("CLISIM_TRACEBACK_FORCE"); ok {
			tb = v
		}
		if os.Getenv("VERIF_CLISIM_CLOCKED") != "" && (c.Run/2)%2 == 1 {
			cmd.Env = append(cmd.Env, "VERIF_MAPORDER=reverse@0")
		}
		cmd.Env = append(append(os.Environ(), cmd.Env...), "CLISIM_TRACEBACK="+tb, "CLISIM_MODE=case", "CLISIM_PROP="+prop, "CLISIM_CASE="+f.Name(), "CLISIM_OUT="+of)
		if ob, err := cmd.CombinedOutput(); err != nil {
			panic(fmt.Sprintf("clisim driver: %v: %s", err, clipS(string(ob), 800)))
		}
		b, err := os.ReadFile(of)
		if err != nil {
			panic(err)
		}
		var vs []*Violation
		if err := json.Unmarshal(b, &vs); err != nil {
			panic(err)
		}
		for _, v := range vs {
			v.Case = c
		}
		return vs
	}
}

// postCLI runs the clisim batch for prop and merges its results.
func postCLI(prop string) func(seed uint64, tier string, cov *Cov) ([]*Violation, map[string]any, error) {
	return func(seed uint64, tier string, cov *Cov) ([]*Violation, map[string]any, error) {
		bin := clisimBin()
		if bin == "" {
			return nil, map[string]any{"clisim_stage": "skipped: VERIF_CLISIM_BIN not set"}, nil
		}
		runs := 2400
		if tier == "thorough" {
			runs = 80000
		}
		workers := 8
		type res struct {
			out *CLIBatchOut
			err error
		}
		ch := make(chan res, workers)
		for w := 0; w < workers; w++ {
			go func(w int) {
				of, err := os.CreateTemp("", "clisim-out-*.json")
				if err != nil {
					ch <- res{nil, err}
					return
				}
				of.Close()
				defer os.Remove(of.Name())
				cmd := exec.Command(bin, "-test.run=^TestClisim$", "-test.timeout=6h")
				tb := "all"
				if w%2 == 1 {
					tb = "" // GOTRACEBACK unset: the "To see all goroutines" hint is printed for single-goroutine dumps
				}
				if os.Getenv("VERIF_CLISIM_CLOCKED") != "" && (w/2)%2 == 1 {
					// this worker's runs under the simulator's clock over packages
					// stack and internal: it jumps a second whenever the code looks
					cmd.Env = append(cmd.Env, "VERIF_MAPORDER=reverse@0")
				}
				cmd.Env = append(append(os.Environ(), cmd.Env...), "CLISIM_TRACEBACK="+tb, "CLISIM_MODE=batch", "CLISIM_PROP="+prop, fmt.Sprintf("CLISIM_SEED=%d", seed), fmt.Sprintf("CLISIM_OFFSET=%d", w), fmt.Sprintf("CLISIM_STRIDE=%d", workers), fmt.Sprintf("CLISIM_RUNS=%d", runs), "CLISIM_OUT="+of.Name(), "GOMAXPROCS=2")
				if ob, err := cmd.CombinedOutput(); err != nil {
					ch <- res{nil, fmt.Errorf("clisim driver: %v: %s", err, clipS(string(ob), 1500))}
					return
				}
				b, err := os.ReadFile(of.Name())
				if err != nil {
					ch <- res{nil, err}
					return
				}
				var o CLIBatchOut
				if err := json.Unmarshal(b, &o); err != nil {
					ch <- res{nil, err}
					return
				}
				ch <- res{&o, nil}
			}(w)
		}
		var vs []*Violation
		total := 0
		evals := 0
		for w := 0; w < workers; w++ {
			r := <-ch
			if r.err != nil {
				return nil, nil, r.err
			}
			o := r.out
			o.Cov.Distinct = map[string]int{}
			o.Cov.Inputs = map[string]int{}
			for _, k := range o.Distinct {
				o.Cov.Distinct[k] = 1
			}
			evals += o.Cov.Evaluations
			cov.Merge(o.Cov)
			vs = append(vs, o.Violations...)
			total += o.Runs
		}
		return vs, map[string]any{"clisim_stage": map[string]any{"what": "the real internal.process() loop under SimReader/SimWriter (driver placed into package internal with go test -overlay)", "clock": map[bool]string{true: "workers 2, 3, 6, 7 of 8 under the simulator's clock over packages stack and internal (time.Now/time.Since rewritten at build time; jumps a second per reading)", false: "real clock"}[os.Getenv("VERIF_CLISIM_CLOCKED") != ""], "runs": total, "evaluations": evals}}, nil
	}
}

func init() {
	for _, p := range []string{"C02", "C07", "C11", "C09"} {
		extraModes[p+"/cli"] = cliCase(p)
	}
}

// expectedCLI builds the expected output of the command: junk lines verbatim,
// each dump replaced by its rendering, the single blank line after a goroutine
// dump withheld. del marks the pieces KF-1 may delete (stray race header
// lines).
func expectedCLI(s *gen.Stream, rend [][]byte) (pieces [][]byte, del []bool) {
	b := s.Bytes
	skip := map[int]bool{}
	for _, d := range s.Dumps {
		if t := d.LastLine + 1; !d.Race && t < len(s.Lines) && s.Lines[t].Blank && s.Lines[t].Class == gen.Junk && s.Lines[t].Term {
			skip[t] = true
		}
	}
	di := 0
	tail := kf1Tail(s)
	for li := 0; li < len(s.Lines); li++ {
		l := s.Lines[li]
		if l.Class == gen.Dump {
			if di < len(s.Dumps) && li == s.Dumps[di].FirstLine {
				pieces = append(pieces, rend[di])
				del = append(del, false)
				li = s.Dumps[di].LastLine
				di++
			}
			continue
		}
		if skip[li] {
			continue
		}
		t := b[l.Start:l.End]
		k := tail[li]
		pieces = append(pieces, t)
		del = append(del, k)
	}
	return
}

// matchPieces: got equals the concatenation of pieces, where pieces marked
// deletable may be left out iff allowDel.
func matchPieces(pieces [][]byte, del []bool, got []byte, allowDel bool) bool {
	reach := map[int]bool{0: true}
	for i, p := range pieces {
		next := map[int]bool{}
		for off := range reach {
			if allowDel && del[i] {
				next[off] = true
			}
			if off+len(p) <= len(got) && bytes.Equal(got[off:off+len(p)], p) {
				next[off+len(p)] = true
			}
		}
		if len(next) == 0 {
			return false
		}
		reach = next
	}
	return reach[len(got)]
}

func joinPieces(p [][]byte) []byte { return bytes.Join(p, nil) }

// ---- C14 at the command level: console rendering must not modify the snapshot --

// ConsoleFunc renders a snapshot the way the command does: pf selects the path
// format (0 full, 1 relative, 2 base name), buckets selects the aggregated or
// the per-goroutine form. Bound by the clisim driver to the unexported
// writeBucketsToConsole / writeGoroutinesToConsole of package internal.
type ConsoleFunc func(s *stack.Snapshot, a *stack.Aggregated, pf int, filter, match string) string

// CheckConsole: parse, aggregate, render to the console in every path format,
// compare the snapshot with a freshly parsed twin after every rendering, and
// the rendering itself with the rendering of the twin.
func CheckConsole(c *Case, cf ConsoleFunc, cov *Cov) []*Violation {
	b := c.Stream().Bytes
	parse := func() *stack.Snapshot {
		// a fresh options value per parse (c.Tree: path guessing and source
		// augmentation over the static tree, so that frames carry arguments
		// rewritten from the sources, which the renderers print)
		s, _, _ := stack.ScanSnapshot(bytes.NewReader(b), io.Discard, c.Opts())
		return s
	}
	subject := parse()
	if subject == nil {
		return nil
	}
	var vs []*Violation
	// -f / -m patterns taken from the dump itself: the state of its first
	// goroutine as a filter (drops entries that are not the last ones), the
	// state of its last goroutine as the only one to show
	type fm struct{ filter, match string }
	fms := []fm{{}}
	if n := len(subject.Goroutines); n > 1 {
		fms = append(fms, fm{filter: regexp.QuoteMeta(subject.Goroutines[0].State)}, fm{match: regexp.QuoteMeta(subject.Goroutines[n-1].State)})
	}
	for _, lvl := range []stack.Similarity{stack.AnyPointer, stack.ExactLines, stack.AnyValue} {
		for pf := 0; pf < 3; pf++ {
			for _, buckets := range []bool{true, false} {
				for _, f := range fms {
					var a *stack.Aggregated
					if buckets {
						a = subject.Aggregate(lvl)
					}
					got := cf(subject, a, pf, f.filter, f.match)
					twin := parse()
					var ta *stack.Aggregated
					if buckets {
						ta = twin.Aggregate(lvl)
					}
					want := cf(twin, ta, pf, f.filter, f.match)
					if cov != nil {
						cov.Evaluations++
						if f.filter != "" || f.match != "" {
							cov.Probe("console-filtered")
						}
					}
					pristine := parse()
					if !reflect.DeepEqual(pristine, subject) {
						d := DiffSnap(pristine, subject)
						return append(vs, &Violation{Prop: "C14", Clause: "C14.snapshot-mutated", Case: c, Msg: fmt.Sprintf("[console rendering] after rendering (path format %d, buckets=%v, level %d, -f %q -m %q) the snapshot differs from a freshly parsed twin: %s", pf, buckets, lvl, f.filter, f.match, d)})
					}
					if got != want {
						return append(vs, &Violation{Prop: "C14", Clause: "C14.result-changed", Case: c, Msg: fmt.Sprintf("[console rendering] rendering (path format %d, buckets=%v, level %d, -f %q -m %q) after earlier renderings differs from the rendering of a freshly parsed snapshot", pf, buckets, lvl, f.filter, f.match)})
					}
				}
			}
		}
	}
	return vs
}

// RunConsoleBatch runs seeded console-rendering cases.
func RunConsoleBatch(seed uint64, offset, stride, runs int, cf ConsoleFunc) *CLIBatchOut {
	cov := NewCov()
	out := &CLIBatchOut{Cov: cov}
	seen := map[string]bool{}
	for i := offset; i < runs; i += stride {
		r := core.NewRng(core.Mix(seed, "C14/console", uint64(i)))
		var doc *gen.Doc
		if r.Chance(0.6) {
			sc := gen.SimilarCfg{Groups: r.Range(1, 4), MaxPerGrp: []int{1, 2, 4}[r.Intn(3)], Shuffle: r.Chance(0.5)}
			if r.Chance(0.6) {
				// source paths that resolve in the static tree (and two that do not)
				sc.Files = []string{"/usr/local/go/src/runtime/proc.go", "/usr/local/go/src/net/http/server.go", "/home/user/go/src/github.com/foo/bar/main.go", "/root/go/pkg/mod/github.com/x/y@v1.2.3/sema.go", "/nowhere/else/file.go", "<autogenerated>"}
			}
			doc = gen.GenerateSimilar(r, sc)
		} else {
			cfg := gen.DefaultCfg(r)
			cfg.MinDumps, cfg.MaxDumps = 1, 1
			cfg.Long, cfg.VeryLong = false, false
			doc = gen.Generate(r, cfg)
		}
		c := &Case{Prop: "C14", Run: uint64(i), Seed: seed, Mode: "console", Doc: doc, NameArgs: true, Tree: r.Chance(0.7)}
		for _, v := range CheckConsole(c, cf, cov) {
			if !seen[v.Clause] {
				seen[v.Clause] = true
				out.Violations = append(out.Violations, v)
			}
		}
		out.Runs++
	}
	return out
}

func postConsole(seed uint64, tier string, cov *Cov) ([]*Violation, map[string]any, error) {
	bin := clisimBin()
	if bin == "" {
		return nil, map[string]any{"console_stage": "skipped: VERIF_CLISIM_BIN not set"}, nil
	}
	runs := 600
	if tier == "thorough" {
		runs = 30000
	}
	of, err := os.CreateTemp("", "clisim-console-*.json")
	if err != nil {
		return nil, nil, err
	}
	of.Close()
	defer os.Remove(of.Name())
	cmd := exec.Command(bin, "-test.run=^TestClisim$", "-test.timeout=2h")
	cmd.Env = append(os.Environ(), "CLISIM_TRACEBACK=all", "CLISIM_MODE=console", "CLISIM_PROP=C14", fmt.Sprintf("CLISIM_SEED=%d", seed), "CLISIM_OFFSET=0", "CLISIM_STRIDE=1", fmt.Sprintf("CLISIM_RUNS=%d", runs), "CLISIM_OUT="+of.Name())
	if ob, err := cmd.CombinedOutput(); err != nil {
		return nil, nil, fmt.Errorf("clisim console stage: %v: %s", err, clipS(string(ob), 1000))
	}
	b, err := os.ReadFile(of.Name())
	if err != nil {
		return nil, nil, err
	}
	var o CLIBatchOut
	if err := json.Unmarshal(b, &o); err != nil {
		return nil, nil, err
	}
	cov.Evaluations += o.Cov.Evaluations
	return o.Violations, map[string]any{"console_stage": map[string]any{"what": "the command's console renderers (writeBucketsToConsole / writeGoroutinesToConsole of package internal, reached through the overlaid driver) on parsed snapshots: snapshot compared with a fresh twin after every rendering, in all three path formats", "runs": o.Runs, "evaluations": o.Cov.Evaluations}}, nil
}

func init() {
	extraModes["C14/console"] = func(c *Case, cov *Cov) []*Violation {
		bin := clisimBin()
		if bin == "" {
			panic("VERIF_CLISIM_BIN not set (run through /verif/run.sh)")
		}
		f, err := os.CreateTemp("", "clisim-case-*.json")
		if err != nil {
			panic(err)
		}
		defer os.Remove(f.Name())
		json.NewEncoder(f).Encode(c)
		f.Close()
		of := f.Name() + ".out"
		defer os.Remove(of)
		cmd := exec.Command(bin, "-test.run=^TestClisim$")
		cmd.Env = append(os.Environ(), "CLISIM_TRACEBACK=all", "CLISIM_MODE=consolecase", "CLISIM_PROP=C14", "CLISIM_CASE="+f.Name(), "CLISIM_OUT="+of)
		if ob, err := cmd.CombinedOutput(); err != nil {
			panic(fmt.Sprintf("clisim driver: %v: %s", err, clipS(string(ob), 800)))
		}
		b, err := os.ReadFile(of)
		if err != nil {
			panic(err)
		}
		var vs []*Violation
		if err := json.Unmarshal(b, &vs); err != nil {
			panic(err)
		}
		for _, v := range vs {
			v.Case = c
		}
		return vs
	}
}

//go:build mapsim

package props

import (
	"encoding/json"
	"fmt"
	"os"
	"regexp"
	"sync/atomic"
	"syscall"
	"time"

	"verifsim/core"
	"verifsim/gen"
)

// ---- C06, slow disk: the same files, read slowly ------------------------------
//
// "The same input bytes with the same options and the same files on disk always
// produce the same result." How long the disk takes is not part of that. One
// case = a dump whose frames point into a source file; the dump is executed
// once with that file a regular file and once with the same path a named pipe
// whose writer delivers the identical content only after a delay (a stalled
// network file system, a cold disk). Everything observable must be equal.
// Real time passes here (the delay); nothing else depends on timing.

// C06SlowExtra is the environment of a slow-source case.
type C06SlowExtra struct {
	Dir     string `json:"dir"`
	DelayMS int    `json:"delay_ms"`
	Analyze bool   `json:"analyze_sources"`
}

func checkSlowSrc(c *Case, cov *Cov) []*Violation {
	var sx C06SlowExtra
	if err := json.Unmarshal(c.Extra, &sx); err != nil {
		panic(err)
	}
	goroot, gopath := sx.Dir+"/goroot", sx.Dir+"/gopath"
	slow := gopath + "/src/p/q.go"
	files := []TreeFile{{Path: goroot + "/src/runtime/proc.go", Content: goSrc}, {Path: slow, Content: goSrc}, {Path: gopath + "/src/m/n.go", Content: goSrc}}
	if err := writeTreeFiles(sx.Dir, files); err != nil {
		panic(err)
	}
	defer os.RemoveAll(sx.Dir)
	ex := &C06Extra{Dir: sx.Dir, GOROOT: goroot, GOPATHs: []string{gopath}, Guess: true, Analyze: sx.Analyze}
	b := c.Stream().Bytes
	ref := c06Exec(b, ex, c.NameArgs, "sorted@0")
	// the same path as a named pipe fed after the delay, for every open
	if err := os.Remove(slow); err != nil {
		panic(err)
	}
	if err := syscall.Mkfifo(slow, 0o644); err != nil {
		panic(err)
	}
	var stop atomic.Bool
	done := make(chan struct{})
	reads := 0
	go func() {
		defer close(done)
		for {
			f, err := os.OpenFile(slow, os.O_WRONLY, 0) // blocks until a reader opens the pipe
			if err != nil || stop.Load() {
				if f != nil {
					f.Close()
				}
				return
			}
			reads++
			time.Sleep(time.Duration(sx.DelayMS) * time.Millisecond)
			f.Write([]byte(goSrc))
			f.Close()
			// let the reader see the end of this delivery before the next open
			time.Sleep(20 * time.Millisecond)
		}
	}()
	got := c06Exec(b, ex, c.NameArgs, "sorted@0")
	stop.Store(true)
	if r, err := os.OpenFile(slow, os.O_RDONLY|syscall.O_NONBLOCK, 0); err == nil {
		<-done
		r.Close()
	} else {
		<-done
	}
	if cov != nil {
		cov.Evaluations += 2
		cov.Probe("slow-source-file")
		if reads > 0 {
			cov.Probe("slow-source-file:read-by-the-library")
		}
	}
	var vs []*Violation
	for _, v := range c06Compare(c, &ref, &got, "the source file read at once", fmt.Sprintf("the same file delivered after %d ms", sx.DelayMS)) {
		v.Clause = "C06.slow-disk"
		v.Msg = "[slow disk] " + v.Msg
		vs = append(vs, v)
		break
	}
	return vs
}

var reSlowFrame = regexp.MustCompile(`\(0x[^\n]*\)\r?\n[ \t]+/r/src/p/q\.go:`)

func postC06Slow(seed uint64, tier string, cov *Cov) ([]*Violation, map[string]any, error) {
	delays := []int{300, 2500}
	if tier == "thorough" {
		delays = []int{100, 300, 1100, 2500, 2500, 5500}
	}
	base := os.Getenv("VERIF_TMP")
	if base == "" {
		base = os.TempDir()
	}
	var vs []*Violation
	t0 := time.Now()
	for i, d := range delays {
		r := core.NewRng(core.Mix(seed, "C06/slowsrc", uint64(i)))
		sx := &C06SlowExtra{Dir: fmt.Sprintf("%s/verif-c06/%d/slow%d", base, seed, i), DelayMS: d, Analyze: true}
		// a dump with at least one frame that has arguments and lies in the slow
		// file (only such frames make the library read it)
		var doc *gen.Doc
		for try := 0; try < 50; try++ {
			doc = gen.GenerateSimilar(r, gen.SimilarCfg{Groups: r.Range(1, 3), MaxPerGrp: []int{1, 2, 4}[r.Intn(3)], Files: []string{"/r/src/p/q.go", "/r/src/p/q.go", "/remote/goroot/src/runtime/proc.go", "/r/src/m/n.go"}})
			if reSlowFrame.Match(gen.Render(doc).Bytes) {
				break
			}
		}
		exj, _ := json.Marshal(sx)
		c := &Case{Prop: "C06", Run: uint64(i), Seed: seed, Mode: "slowsrc", Doc: doc, NameArgs: true, Extra: exj}
		for _, v := range checkSlowSrc(c, cov) {
			if len(vs) < 2 {
				vs = append(vs, v)
			}
		}
	}
	return vs, map[string]any{"slow_disk_stage": fmt.Sprintf("%d cases: one source file of the tree replaced by a named pipe that delivers the identical content after %v ms (real time, %.1f s in total); results compared with the regular-file execution", len(delays), delays, time.Since(t0).Seconds())}, nil
}

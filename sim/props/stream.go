package props

import (
	"bytes"
	"encoding/json"
	"fmt"
	"strings"

	"github.com/maruel/panicparse/v2/stack"

	"verifsim/core"
	"verifsim/gen"
	"verifsim/iosim"
)

// ---- C02, C07, C11: the resume loop under a producer that pauses ------------
//
// All three are checked on the same kind of execution: the documented resume
// loop over a SimReader, observed at every block point and at the end. Each
// property owns its clauses and its workload configuration.

type loopObs struct {
	lr    *LoopRes
	sr    *iosim.SimReader
	w     *iosim.SimWriter
	snaps int
	vs    []*Violation
}

// isRaceLook reports whether a junk line is exactly a race header line (the
// text KF-1 is about).
func isRaceLook(t []byte) bool {
	t = bytes.TrimRight(t, "\r\n")
	return bytes.Equal(t, []byte("==================")) || bytes.Equal(t, []byte("WARNING: DATA RACE"))
}

// terminatorLine returns the index of the first line after dump d that cannot
// belong to it in any reading: the line after the single blank separator (for
// a goroutine dump) or the line after the closing separator (race report).
// Returns -1 if the stream ends first.
func terminatorLine(s *gen.Stream, d *gen.DumpInfo) int {
	t := d.LastLine + 1
	if !d.Race && t < len(s.Lines) && s.Lines[t].Blank && s.Lines[t].Class == gen.Junk {
		t++
	}
	if t >= len(s.Lines) {
		return -1
	}
	return t
}

// resumeOffset is where scanning must resume after dump d.
func resumeOffset(s *gen.Stream, d *gen.DumpInfo) int {
	t := d.LastLine + 1
	if !d.Race && t < len(s.Lines) && s.Lines[t].Blank && s.Lines[t].Class == gen.Junk && s.Lines[t].Term {
		return s.Lines[t].End
	}
	return d.End
}

// observeLoop runs the resume loop and evaluates the clauses of prop.
func observeLoop(prop string, c *Case, cov *Cov) []*Violation {
	s := c.Stream()
	b := s.Bytes
	sched := c.Sched.FitTo(len(b))
	clk := &core.Clock{}
	sr := iosim.NewSimReader(b, sched, clk)
	if c.Bufio > 0 {
		sr.WrapBufio(c.Bufio)
	}
	w := iosim.NewSimWriter(clk)
	var vs []*Violation
	seen := map[string]bool{}
	add := func(clause, known, msg string) {
		if seen[clause+known] {
			return
		}
		seen[clause+known] = true
		vs = append(vs, &Violation{Prop: prop, Clause: prop + "." + clause, Msg: msg, Case: c, Known: known})
	}
	snaps := 0
	if prop == "C11" {
		sr.OnBlock = func(r *iosim.SimReader) {
			del := r.Delivered()
			if cov != nil {
				cov.Probe("block-points")
			}
			// everything that must have been written by now, in order: an exact
			// prefix of the output (blank lines and repeated lines included)
			exp, missing := expectedSoFar(s, del, nil)
			if !bytes.HasPrefix(w.Buf, exp) {
				d := FirstDiff(w.Buf, exp)
				li := missing(d)
				add("withheld-line", "", fmt.Sprintf("the input source blocks after %d bytes; the complete pass-through line %s (line %d, bytes %d..%d) was delivered but has not been written to the output (%d bytes written so far, %d expected; output ends with %s)", del, Clip(s.Text(li), 80), li, s.Lines[li].Start, s.Lines[li].End, len(w.Buf), len(exp), Clip(lastBytes(w.Buf, 60), 60)))
				return
			}
			for di := range s.Dumps {
				t := terminatorLine(s, &s.Dumps[di])
				if t >= 0 && s.Lines[t].Term && s.Lines[t].End <= del && snaps < di+1 {
					add("snapshot-late", "", fmt.Sprintf("the input source blocks after %d bytes; the line that ends dump #%d (%s) has been delivered completely but only %d snapshot(s) have been returned", del, di, Clip(s.Text(t), 60), snaps))
					return
				}
			}
		}
	}
	opts := c.Opts()
	maxCalls := len(s.Lines) + 3
	var calls []CallRes
	var rems [][]byte
	lr := ScanLoop(sr, w, opts, maxCalls, func(call int, res *CallRes) {
		if res.Snap != nil {
			snaps++
		}
		calls = append(calls, *res)
		rems = append(rems, append(append([]byte(nil), res.Suffix...), sr.Unread()...))
	})
	if cov != nil {
		cov.Steps += clk.Now()
		cov.NoteReader(sr)
		cov.Faults.Writes += w.Writes
	}
	if lr.Panic != "" {
		add("panic", "", lr.Panic)
		return vs
	}
	if lr.Exceeded || lr.NoProg {
		add("progress", "", fmt.Sprintf("the resume loop does not terminate (%d calls for %d lines; call without progress=%v)", len(lr.Calls), len(s.Lines), lr.NoProg))
		return vs
	}
	switch prop {
	case "C02":
		f := append(append([]byte(nil), lr.Out...), lr.Rest...)
		checkConservation(s, f, add)
		checkNoDumpNoWithholding(s, calls, add)
	case "C07":
		checkDelimitation(c, s, calls, rems, opts, add)
	}
	return vs
}

func lastBytes(b []byte, n int) []byte {
	if len(b) > n {
		return b[len(b)-n:]
	}
	return b
}

// ---- C02 oracle -------------------------------------------------------------

// checkConservation: f (everything the protocol emitted, in order) must be the
// input with only dump lines and at most one blank line directly after each
// dump removed.
func checkConservation(s *gen.Stream, f []byte, add func(clause, known, msg string)) {
	b := s.Bytes
	n := len(s.Lines)
	fl := splitLines(f)
	plain := make([]bool, n) // withholdable by the statement
	kf1 := make([]bool, n)   // additionally withholdable under KF-1
	for _, d := range s.Dumps {
		for i := d.FirstLine; i <= d.LastLine; i++ {
			plain[i] = true
		}
		if t := d.LastLine + 1; (!d.Race || d.NoFooter) && t < n && s.Lines[t].Blank && s.Lines[t].Class == gen.Junk {
			plain[t] = true
		}
		// A dump that was damaged on purpose may be completed by look-alike text
		// that follows it (a file line after a "created by" that lost its own, a
		// call after a footer-less report, ...): such lines may be withheld too.
		if d.Damaged {
			for t := d.LastLine + 1; t < n && t <= d.LastLine+3 && s.Lines[t].Class == gen.Junk; t++ {
				if !continuationLike(s.Text(t)) {
					break
				}
				plain[t] = true
			}
		}
		// a report generated without footer that happens to be followed by an
		// exact separator line is simply a complete report
		if t := d.LastLine + 1; d.NoFooter && t < n && s.Lines[t].Class == gen.Junk && string(bytes.TrimRight(s.Text(t), "\r\n")) == "==================" {
			plain[t] = true
		}
	}
	for i := range kf1Tail(s) {
		kf1[i] = true
	}
	align := func(allowKF1 bool) bool {
		m := len(fl)
		reach := make([]bool, m+1)
		reach[0] = true
		for i := 0; i < n; i++ {
			li := b[s.Lines[i].Start:s.Lines[i].End]
			wh := plain[i] || (allowKF1 && kf1[i])
			next := make([]bool, m+1)
			any := false
			for j := 0; j <= m; j++ {
				if !reach[j] {
					continue
				}
				if wh {
					next[j] = true
					any = true
				}
				if j < m && len(fl[j]) == len(li) && bytes.Equal(fl[j], li) {
					next[j+1] = true
					any = true
				}
			}
			if !any {
				return false
			}
			reach = next
		}
		return reach[m]
	}
	if align(false) {
		return
	}
	known := ""
	if align(true) {
		known = "KF-1"
	}
	// diagnose: which junk line is lost / duplicated / out of order
	count := map[string]int{}
	first := map[string]int{}
	for j, l := range fl {
		k := string(l)
		count[k]++
		if _, ok := first[k]; !ok {
			first[k] = j
		}
	}
	last := -1
	for i, l := range s.Lines {
		if l.Class != gen.Junk || l.Blank {
			continue
		}
		if known != "" && kf1[i] {
			continue
		}
		t := string(b[l.Start:l.End])
		switch {
		case count[t] == 0:
			// altered?
			core := strings.TrimRight(t, "\r\n")
			alt := false
			for _, x := range fl {
				if len(core) > 3 && (bytes.Contains(x, []byte(core)) || (len(x) > 3 && strings.Contains(core, string(bytes.TrimRight(x, "\r\n"))))) {
					alt = true
					add("junk-altered", known, fmt.Sprintf("pass-through line %d %s appears altered in the output as %s", i, Clip([]byte(t), 80), Clip(x, 80)))
					break
				}
			}
			if !alt {
				add("junk-lost", known, fmt.Sprintf("pass-through line %d %s (bytes %d..%d) is missing from the output", i, Clip([]byte(t), 80), l.Start, l.End))
			}
			return
		case count[t] > 1:
			add("junk-dup", known, fmt.Sprintf("pass-through line %d %s occurs %d times in the output", i, Clip([]byte(t), 80), count[t]))
			return
		}
		if first[t] < last {
			add("junk-order", known, fmt.Sprintf("pass-through line %d %s is emitted out of order", i, Clip([]byte(t), 80)))
			return
		}
		last = first[t]
	}
	if known != "" {
		add("junk-lost", known, "stray race header lines at the very end of the stream ('==================', optionally followed by 'WARNING: DATA RACE') are held back and never forwarded")
		return
	}
	add("withheld", known, fmt.Sprintf("the output is not the input minus dump lines and at most one blank line after each dump (blank lines or dump-line fragments do not line up); input %d lines, output %d lines; first difference at output offset %d", n, len(fl), FirstDiff(f, b)))
}

// checkNoDumpNoWithholding: "the only bytes ever withheld are the lines of the
// dump itself": a call that recognised no dump (it returned no snapshot) has
// nothing it may withhold - what it forwarded followed by what it handed back
// is exactly what it consumed. The alignment above cannot see this when the
// lines concerned were generated as a dump that the scanner then rejects at
// its first lines (a report whose first operation header carries a number no
// integer holds): there the lines are "dump lines" by construction and no dump
// by recognition.
func checkNoDumpNoWithholding(s *gen.Stream, calls []CallRes, add func(clause, known, msg string)) {
	b := s.Bytes
	start := 0
	for i, cr := range calls {
		end := cr.OffAfter
		if end > len(b) || start > end {
			return
		}
		if cr.Snap == nil && cr.Panic == "" {
			got := append(append([]byte(nil), cr.Fwd...), cr.Suffix...)
			if want := b[start:end]; !bytes.Equal(got, want) {
				known := ""
				if len(got) < len(want) && bytes.HasPrefix(want, got) && end == len(b) {
					// KF-1: stray race header lines at the very end of the stream
					lost := want[len(got):]
					tail := kf1Tail(s)
					n := 0
					for li := range tail {
						n += s.Lines[li].End - s.Lines[li].Start
					}
					if n == len(lost) && len(tail) > 0 {
						known = "KF-1"
					}
				}
				if known != "" {
					add("junk-lost", known, "stray race header lines at the very end of the stream ('==================', optionally followed by 'WARNING: DATA RACE') are held back and never forwarded")
				} else {
					d := FirstDiff(got, want)
					add("no-dump-withheld", "", fmt.Sprintf("call #%d returned no snapshot (%s) yet what it forwarded (%d bytes) followed by what it handed back (%d bytes) is not what it consumed (stream bytes %d..%d): first difference at +%d, consumed %s, emitted %s", i, ErrKey(cr.Err), len(cr.Fwd), len(cr.Suffix), start, end, d, Clip(want[min(d, len(want)):], 80), Clip(got[min(d, len(got)):], 80)))
				}
				return
			}
		}
		start = end - len(cr.Suffix)
	}
}

// ---- C07 oracle -------------------------------------------------------------

func checkDelimitation(c *Case, s *gen.Stream, calls []CallRes, rems [][]byte, opts *stack.Opts, add func(clause, known, msg string)) {
	b := s.Bytes
	var snaps []int // call indices that returned a snapshot
	for i, cr := range calls {
		if cr.Snap != nil {
			snaps = append(snaps, i)
		}
	}
	k := len(s.Dumps)
	if len(snaps) != k {
		var ids []string
		for _, ci := range snaps {
			ids = append(ids, fmt.Sprintf("[%s]", Describe(calls[ci].Snap)))
		}
		add("count", "", fmt.Sprintf("%d dumps in the stream but %d snapshots returned: %s", k, len(snaps), clipS(strings.Join(ids, " "), 500)))
	}
	n := k
	if len(snaps) < n {
		n = len(snaps)
	}
	for i := 0; i < n; i++ {
		d := &s.Dumps[i]
		cr := calls[snaps[i]]
		// equal to scanning that dump alone
		if c.Doc != nil {
			alone := gen.Render(gen.SubDoc(c.Doc, d.Item)).Bytes
			w := iosim.NewSimWriter(nil)
			ar := ScanOnce(bytes.NewReader(alone), w, opts)
			if ar.Panic != "" {
				add("panic", "", "scanning dump alone panics: "+ar.Panic)
				return
			}
			if !SnapEqual(ar.Snap, cr.Snap) {
				add("equal-alone", "", fmt.Sprintf("snapshot #%d differs from scanning that dump alone: %s; in stream=%s alone=%s", i, DiffSnap(ar.Snap, cr.Snap), Describe(cr.Snap), Describe(ar.Snap)))
				return
			}
		}
		// resume point
		if ErrKey(cr.Err) == "nil" || ErrKey(cr.Err) == "EOF" {
			from := resumeOffset(s, d)
			if !bytes.Equal(rems[snaps[i]], b[from:]) {
				add("resume-point", "", fmt.Sprintf("after snapshot #%d the remainder ++ unread input (%d bytes: %s) is not the stream from the first line after the dump (offset %d, %d bytes: %s)", i, len(rems[snaps[i]]), Clip(rems[snaps[i]], 80), from, len(b)-from, Clip(b[from:], 80)))
				return
			}
		} else {
			add("error", "", fmt.Sprintf("call returning snapshot #%d reports %s on a well-formed dump", i, ErrKey(cr.Err)))
			return
		}
	}
}

// ---- workloads ---------------------------------------------------------------

func loopSchedules(r *core.Rng, s *gen.Stream, n int, pausey bool) []iosim.Schedule {
	ln := len(s.Bytes)
	out := []iosim.Schedule{iosim.OneShot(ln)}
	if ln <= 20000 {
		out = append(out, iosim.Fixed(1, ln, false))
	}
	hot := hotOffsets(s)
	for i := 0; i < n; i++ {
		o := iosim.RandomOpts{
			MeanChunk: []float64{2, 8, 40, 200, 3000}[r.Intn(5)],
			PZero:     []float64{0, 0, 0.1}[r.Intn(3)],
			PShort:    []float64{0, 0, 0.3}[r.Intn(3)],
			Hot:       hot,
			PHot:      []float64{0, 0.5, 0.95}[r.Intn(3)],
			With:      r.Chance(0.5),
		}
		if pausey {
			o.PHot = []float64{0.5, 0.9, 1}[r.Intn(3)]
		}
		out = append(out, iosim.Random(r, ln, o))
	}
	// pauses after exactly one buffer-full / quarter buffer (a reader that takes a
	// full Read for "more is coming" shows here)
	if ln > 4096 {
		out = append(out, iosim.Fixed(16384, ln, false), iosim.Fixed(4096, ln, true))
	}
	// pauses exactly at every line end (the producer writes line by line)
	var st []iosim.Step
	for _, l := range s.Lines {
		st = append(st, iosim.Step{Op: "w", N: l.End - l.Start})
	}
	st = append(st, iosim.Step{Op: "close"})
	out = append(out, iosim.Schedule{Steps: st})
	return out
}

func runLoopProp(prop string, r *core.Rng, run, seed uint64, tier string, cov *Cov, cfg gen.Cfg, nsched int) []*Violation {
	doc := gen.Generate(r, cfg)
	if prop == "C02" && r.Chance(0.08) && gen.Malform(r, doc) {
		cov.Probe("malformed-dump")
	}
	s := gen.Render(doc)
	ih := core.Hash(s.Bytes)
	cov.Inputs[ih]++
	nameArgs := r.Chance(0.5)
	var vs []*Violation
	seen := map[string]bool{}
	scheds := loopSchedules(r, s, nsched, prop == "C11")
	for si, sc := range scheds {
		c := &Case{Prop: prop, Run: run, Seed: seed, Mode: "loop", Doc: doc, Sched: sc, NameArgs: nameArgs}
		if prop != "C11" && (si == 0 || si == 2) {
			// one-shot delivery and the first seeded schedule once more, the
			// scanner reading through a bufio.Reader as large as (or larger
			// than) its own buffer
			c2 := *c
			c2.Bufio = []int{16384, 32768, 65536}[int(run)%3]
			cov.Probe("behind-bufio.Reader")
			cov.Note(ih, sc, len(s.Dumps) > 0, "bufio")
			for _, v := range observeLoop(prop, &c2, cov) {
				if !seen[v.Clause+v.Known] {
					seen[v.Clause+v.Known] = true
					vs = append(vs, v)
				}
			}
		}
		cov.Note(ih, sc, len(s.Dumps) > 0, "")
		for _, v := range observeLoop(prop, c, cov) {
			if !seen[v.Clause+v.Known] {
				seen[v.Clause+v.Known] = true
				vs = append(vs, v)
			}
		}
	}
	cov.Probe(fmt.Sprintf("dumps=%d", len(s.Dumps)))
	for i, l := range s.Lines {
		if l.Class == gen.Junk && l.End-l.Start >= 16384 {
			t := bytes.TrimRight(s.Text(i), "\r\n")
			if bytes.HasSuffix(t, []byte("]:")) || bytes.HasSuffix(t, []byte("==================")) || bytes.HasSuffix(t, []byte("WARNING: DATA RACE")) {
				cov.Probe("long-line-ending-in-dump-opening")
			}
		}
	}
	for _, d := range s.Dumps {
		if d.Race {
			cov.Probe("race-report")
		} else {
			cov.Probe("goroutine-dump")
			if d.Indent != "" {
				cov.Probe("indented-dump")
			}
		}
	}
	if len(cov.Samples) < 2 {
		cov.Samples = append(cov.Samples, map[string]any{"stream": Clip(s.Bytes, 500), "bytes": len(s.Bytes), "dumps": len(s.Dumps), "schedules": len(scheds), "example_schedule": clipS(scheds[len(scheds)-2].Key(), 200)})
	}
	return vs
}

// RunC02: full junk alphabet, 0..k dumps.
func RunC02(r *core.Rng, run, seed uint64, tier string, cov *Cov) []*Violation {
	cfg := gen.DefaultCfg(r)
	cfg.ExactRaceSep = r.Chance(0.15)
	if r.Chance(0.15) {
		cfg.MaxDumps = 0
	}
	hugeLineProbe(&cfg, run, cov)
	return runLoopProp("C02", r, run, seed, tier, cov, cfg, 10)
}

// hugeLineProbe: every 1500th run starts with a line of a whole power-of-two
// number of buffer-fulls (64 KiB ... 2 MiB) that ends in dump-opening text.
func hugeLineProbe(cfg *gen.Cfg, run uint64, cov *Cov) {
	if run%1500 == 11 {
		cfg.HugeLine = 16384 * []int{4, 8, 16, 64, 128}[int(run/1500)%5]
		cov.Probe("huge-line-probe")
	}
}

// RunC07: k >= 1 dumps with every terminator kind.
func RunC07(r *core.Rng, run, seed uint64, tier string, cov *Cov) []*Violation {
	cfg := gen.DefaultCfg(r)
	cfg.MinDumps = 1
	cfg.MaxDumps = r.Range(1, 5)
	cfg.Long, cfg.VeryLong = r.Chance(0.05), false
	cfg.ExactRaceSep, cfg.NoWarnAfterSep = r.Chance(0.15), true
	if r.Chance(0.15) {
		return runC07Invalid(r, run, seed, cov, cfg)
	}
	hugeLineProbe(&cfg, run, cov)
	return runLoopProp("C07", r, run, seed, tier, cov, cfg, 8)
}

// runC07Invalid: one dump of the stream is damaged so that the line at which
// the scanner must stop is known.
func runC07Invalid(r *core.Rng, run, seed uint64, cov *Cov, cfg gen.Cfg) []*Violation {
	cfg.ExactRaceSep = false
	doc := gen.Generate(r, cfg)
	var inv *gen.Invalid
	if r.Chance(0.2) {
		inv = gen.IndentClash(r, doc, 100000+r.Intn(800000))
	} else {
		inv = gen.MalformPrecise(r, doc, 100000+r.Intn(800000))
	}
	if inv == nil {
		return nil
	}
	cov.Probe("invalid-line:" + inv.Kind)
	s := gen.Render(doc)
	ih := core.Hash(s.Bytes)
	cov.Inputs[ih]++
	ej, _ := json.Marshal(inv)
	var vs []*Violation
	seen := map[string]bool{}
	for _, sc := range loopSchedules(r, s, 4, false) {
		c := &Case{Prop: "C07", Run: run, Seed: seed, Mode: "loop-invalid", Doc: doc, Sched: sc, NameArgs: true, Extra: ej}
		cov.Note(ih, sc, true, "invalid")
		for _, v := range observeInvalid(c, cov) {
			if !seen[v.Clause] {
				seen[v.Clause] = true
				vs = append(vs, v)
			}
		}
	}
	return vs
}

func observeInvalid(c *Case, cov *Cov) []*Violation {
	var inv gen.Invalid
	if err := json.Unmarshal(c.Extra, &inv); err != nil {
		panic(err)
	}
	s := c.Stream()
	b := s.Bytes
	var vs []*Violation
	add := func(clause, msg string) {
		vs = append(vs, &Violation{Prop: "C07", Clause: "C07." + clause, Msg: msg, Case: c})
	}
	// locate the stop line and the damaged dump (shrinking may have removed them)
	mi := bytes.Index(b, []byte(inv.Marker))
	if mi < 0 {
		return nil
	}
	li := s.LineAt(mi)
	if inv.After {
		li++
	}
	if li >= len(s.Lines) {
		return nil
	}
	bad := s.Lines[li].Start
	dj := -1
	for j, d := range s.Dumps {
		if d.Start <= mi && mi < d.End {
			dj = j
		}
	}
	if inv.PrevDump {
		dj--
	} else if dj < 0 {
		// the marker is plain text after the dump: the dump that must stop is
		// the last one before it
		for j, d := range s.Dumps {
			if d.End <= mi {
				dj = j
			}
		}
	}
	if dj < 0 {
		return nil
	}
	clk := &core.Clock{}
	sr := iosim.NewSimReader(b, c.Sched.FitTo(len(b)), clk)
	w := iosim.NewSimWriter(clk)
	var calls []CallRes
	var rems [][]byte
	lr := ScanLoop(sr, w, c.Opts(), len(s.Lines)+3, func(call int, res *CallRes) {
		calls = append(calls, *res)
		rems = append(rems, append(append([]byte(nil), res.Suffix...), sr.Unread()...))
	})
	if cov != nil {
		cov.Steps += clk.Now()
		cov.NoteReader(sr)
	}
	if lr.Panic != "" {
		add("panic", lr.Panic)
		return vs
	}
	if lr.Exceeded || lr.NoProg {
		add("progress", "the resume loop does not terminate on a stream with a damaged dump")
		return vs
	}
	if inv.NoSnapshot {
		// the call that fails is the one whose remainder starts at the stop line;
		// exactly dj snapshots precede it and none is produced for the damaged dump
		n := 0
		for i, cr := range calls {
			if cr.Snap != nil {
				n++
				continue
			}
			if strings.HasPrefix(ErrKey(cr.Err), "err:") {
				if n != dj {
					add("count", fmt.Sprintf("%s: %d snapshots before the rejected report, expected %d", inv.Kind, n, dj))
				}
				if !bytes.Equal(rems[i], b[bad:]) {
					add("stops-at-invalid", fmt.Sprintf("%s: the call that rejects the report must hand back the stream from the line %s (offset %d); remainder ++ unread is %s", inv.Kind, Clip(s.Text(li), 60), bad, Clip(rems[i], 80)))
				}
				return vs
			}
		}
		add("stops-at-invalid", fmt.Sprintf("%s: no call reported a parse error for the line %s", inv.Kind, Clip(s.Text(li), 60)))
		return vs
	}
	// the (dj+1)-th snapshot belongs to the damaged dump
	n := 0
	for i, cr := range calls {
		if cr.Snap == nil {
			continue
		}
		if n == dj {
			if !bytes.Equal(rems[i], b[bad:]) {
				add("stops-at-invalid", fmt.Sprintf("%s: scanning must stop at the line %s (offset %d) and return it and everything after it unconsumed, but remainder ++ unread is %s (%d bytes, expected %d)", inv.Kind, Clip(s.Text(li), 60), bad, Clip(rems[i], 80), len(rems[i]), len(b)-bad))
			}
			ek := ErrKey(cr.Err)
			isParse := strings.HasPrefix(ek, "err:")
			if inv.WantErr && !isParse {
				add("stops-at-invalid", fmt.Sprintf("%s: the line %s invalidates the dump but the call returned %s", inv.Kind, Clip(s.Text(li), 60), ek))
			}
			if !inv.WantErr && isParse {
				add("stops-at-invalid", fmt.Sprintf("%s: the line %s merely ends the dump but the call returned %s", inv.Kind, Clip(s.Text(li), 60), ek))
			}
			return vs
		}
		n++
	}
	add("count", fmt.Sprintf("%s: the damaged dump (#%d) did not yield a snapshot (%d snapshots in total)", inv.Kind, dj, n))
	return vs
}

// RunC11: producer pauses.
func RunC11(r *core.Rng, run, seed uint64, tier string, cov *Cov) []*Violation {
	cfg := gen.DefaultCfg(r)
	cfg.ExactRaceSep, cfg.NoWarnAfterSep = r.Chance(0.2), r.Chance(0.7)
	if cfg.MaxJunk < 2 {
		cfg.MaxJunk = 2
	}
	return runLoopProp("C11", r, run, seed, tier, cov, cfg, 12)
}

func init() {
	stubs := []string{"io.Reader producer that pauses (iosim.SimReader)", "io.Writer sink (iosim.SimWriter)"}
	real := []string{"stack.ScanSnapshot", "stack.reader", "scanner state machine", "the documented resume protocol (io.MultiReader(suffix, rest), flush of the remainder on error/EOF)"}
	register(&Spec{
		ID: "C02", Level: "exploration",
		Run:       RunC02,
		Check:     func(c *Case, cov *Cov) []*Violation { return dispatchLoop("C02", c, cov) },
		MustReach: []string{"goroutine-dump", "race-report", "indented-dump", "malformed-dump", "pp-block-points", "pp-file-argument"},
		Posts:     []func(uint64, string, *Cov) ([]*Violation, map[string]any, error){postCLI("C02"), postPPDrive("C02")},
		Quick:     12000, Thorough: 400000,
		Rule:        "one evaluation = the documented resume loop over one generated stream (text and binary junk, long lines, CRLF, look-alike fragments, 0..4 goroutine dumps / race reports with every terminator kind) under one delivery schedule; the output (writer bytes ++ final remainder ++ unread) must be the input minus dump lines and at most one blank line after each dump (line alignment by dynamic programming; junk lines are unique by construction); also the real CLI loop (internal.process) in the clisim stage and the pp binary in the ppdrive stage; distinct_nontrivial = distinct (stream, schedule) pairs with >= 1 dump and a non-trivial schedule",
		Assumptions: []string{"the generators bound what 'every input' means", "writer faults are not injected (no property quantifies over them)", "GuessPaths/AnalyzeSources off at library level"},
		Real:        real, Stubs: stubs,
		Probes: func() []*Case {
			return []*Case{{Prop: "C02", Mode: "loop", NameArgs: true, Doc: &gen.Doc{Items: []gen.Item{{Kind: "junk", Text: "a\n"}, {Kind: "junk", Text: "==================\n"}}}}}
		},
	})
	register(&Spec{
		ID: "C07", Level: "exploration",
		Run:       RunC07,
		Check:     func(c *Case, cov *Cov) []*Violation { return dispatchLoop("C07", c, cov) },
		MustReach: []string{"goroutine-dump", "race-report", "indented-dump"},
		Posts:     []func(uint64, string, *Cov) ([]*Violation, map[string]any, error){postCLI("C07")},
		Quick:     12000, Thorough: 400000,
		Rule:        "one evaluation = the resume loop over a generated stream of 1..5 dumps (goroutine dumps incl. indented/CRLF/unavailable/elided variants, race reports) with every terminator kind (junk directly after the last frame / after created-by / after an elision marker; one blank then junk; two blanks; a race report directly or after one blank; end of stream with and without end of line) under one delivery schedule; clauses: one snapshot per dump, each equal to scanning that dump alone, remainder ++ unread equals the stream from the first line after the dump (after its single blank separator), loop terminates; distinct_nontrivial as C02",
		Assumptions: []string{"scope: the history part of C07 (resume protocol under delivery schedules); the exhaustive (state x line kind) grammar exploration is model checking and is not done (DESIGN 4.3)", "two goroutine dumps are separated by at least one non-blank line or two blank lines", "after an indented dump the first non-blank line carries the indentation (the un-indented case is an error by the author's pinned design)"},
		Real:        real, Stubs: stubs,
	})
	register(&Spec{
		ID: "C11", Level: "exploration",
		Run:       RunC11,
		Check:     func(c *Case, cov *Cov) []*Violation { return dispatchLoop("C11", c, cov) },
		MustReach: []string{"block-points", "cli-block-points", "pp-block-points", "pp-fifo-block-points"},
		Posts:     []func(uint64, string, *Cov) ([]*Violation, map[string]any, error){postCLI("C11"), postPPDrive("C11")},
		Quick:     12000, Thorough: 400000,
		Rule:        "one evaluation = the resume loop over one generated stream under one producer schedule; at EVERY block point (a Read that finds nothing available, observed inside that Read) every complete pass-through line delivered so far must already be in the writer, and every dump whose terminating line has been delivered completely must already have been returned; schedules: one-shot, byte-wise, line-by-line, seeded chunkings attracted to line ends with zero/short reads; distinct_nontrivial as C02; probes.block-points counts the observation points",
		Assumptions: []string{"race header lines ('==================', then 'WARNING: DATA RACE') may be pending only while they are the last complete lines delivered (the statement's one-line look-ahead); every other complete pass-through line must be written", "blank lines are not required at block points (C02 accounts for them at the end)", "for a race report the terminating line is taken to be the line after the closing separator (weaker than what the code does, never stronger than the statement)"},
		Real:        real, Stubs: stubs,
	})
}

func dispatchLoop(prop string, c *Case, cov *Cov) []*Violation {
	switch c.Mode {
	case "loop", "":
		return observeLoop(prop, c, cov)
	case "loop-invalid":
		return observeInvalid(c, cov)
	}
	if f := extraModes[prop+"/"+c.Mode]; f != nil {
		return f(c, cov)
	}
	return nil
}

// extraModes lets other engines (clisim, ppdrive) hook their replay.
var extraModes = map[string]func(c *Case, cov *Cov) []*Violation{}

// kf1Tail returns the indices of the lines KF-1 may still lose: stray race
// header lines ('==================', optionally followed by 'WARNING: DATA
// RACE') that are the very last lines of the stream. The scanner holds them
// back until the next line shows whether a report follows; at end of stream
// nothing follows and they are dropped (pinned by RaceHdr2Err..RaceHdr4Err).
func kf1Tail(s *gen.Stream) map[int]bool {
	out := map[int]bool{}
	n := len(s.Lines)
	text := func(i int) string { return string(bytes.TrimRight(s.Text(i), "\r\n")) }
	isJunk := func(i int) bool { return i >= 0 && i < n && s.Lines[i].Class == gen.Junk }
	if n >= 1 && isJunk(n-1) && text(n-1) == "==================" && s.Lines[n-1].Term {
		out[n-1] = true
	}
	if n >= 2 && isJunk(n-1) && isJunk(n-2) && text(n-1) == "WARNING: DATA RACE" && text(n-2) == "==================" {
		out[n-1], out[n-2] = true, true
	}
	return out
}

// heldAt returns the lines that may legitimately still be pending when the
// producer blocks after del bytes: the statement's one-line look-ahead. These
// are the race header lines ('==================', then 'WARNING: DATA RACE')
// that are the LAST complete lines delivered so far - nothing has arrived yet
// that shows whether a report follows. Every other complete pass-through line
// must have been written.
func heldAt(s *gen.Stream, del int) map[int]bool {
	out := map[int]bool{}
	last := -1
	for i, l := range s.Lines {
		if l.Term && l.End <= del {
			last = i
		} else {
			break
		}
	}
	text := func(i int) string { return string(bytes.TrimRight(s.Text(i), "\r\n")) }
	junk := func(i int) bool { return i >= 0 && s.Lines[i].Class == gen.Junk }
	if last >= 0 && junk(last) && text(last) == "==================" {
		out[last] = true
	}
	if last >= 1 && junk(last) && junk(last-1) && text(last) == "WARNING: DATA RACE" && text(last-1) == "==================" {
		out[last], out[last-1] = true, true
	}
	return out
}

// continuationLike: the documented grammar can read the line as part of a
// dump (call, file line, creation line, elision marker, section header, blank).
func continuationLike(l []byte) bool {
	t := strings.TrimRight(string(l), "\r\n")
	tt := strings.TrimLeft(t, " \t")
	switch {
	case tt == "":
		return true
	case strings.HasSuffix(tt, ")"), strings.HasPrefix(tt, "created by "), strings.HasPrefix(tt, "..."):
		return true
	case strings.HasPrefix(tt, "Previous "), strings.HasPrefix(tt, "Goroutine "), t == "==================":
		return true
	case tt != t && strings.Contains(tt, ":"): // indented "file:line"
		return true
	}
	return false
}

// expectedSoFar returns the bytes that must already have been written when the
// producer blocks after del bytes: every complete pass-through line delivered
// so far, in order - except the single blank separator after a goroutine dump
// and race header lines that are still the last lines delivered (heldAt). With
// rend != nil (command level) each dump whose terminating line has been
// delivered is replaced by its rendering, and the list stops at the first dump
// that is still open. missing maps an offset in the result back to the line.
func expectedSoFar(s *gen.Stream, del int, rend [][]byte) ([]byte, func(off int) int) {
	var out []byte
	var starts, lines []int
	skip := map[int]bool{}
	for _, d := range s.Dumps {
		if t := d.LastLine + 1; !d.Race && t < len(s.Lines) && s.Lines[t].Blank && s.Lines[t].Class == gen.Junk && s.Lines[t].Term {
			skip[t] = true
		}
	}
	held := heldAt(s, del)
	di := 0
	for li := 0; li < len(s.Lines); li++ {
		l := s.Lines[li]
		if l.Class == gen.Dump {
			if di < len(s.Dumps) && li == s.Dumps[di].FirstLine {
				t := terminatorLine(s, &s.Dumps[di])
				if t < 0 || !s.Lines[t].Term || s.Lines[t].End > del {
					break // still open: nothing after it can have been written
				}
				if rend != nil {
					starts = append(starts, len(out))
					lines = append(lines, li)
					out = append(out, rend[di]...)
				}
				li = s.Dumps[di].LastLine
				di++
			}
			continue
		}
		if !l.Term || l.End > del {
			break
		}
		if skip[li] || held[li] {
			continue
		}
		starts = append(starts, len(out))
		lines = append(lines, li)
		out = append(out, s.Bytes[l.Start:l.End]...)
	}
	return out, func(off int) int {
		r := 0
		for i, st := range starts {
			if st <= off {
				r = lines[i]
			}
		}
		return r
	}
}

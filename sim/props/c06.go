//go:build mapsim

package props

import (
	"bytes"
	"encoding/json"
	"fmt"
	"io"
	"os"
	"os/exec"
	"reflect"
	"regexp"
	"strings"

	"github.com/maruel/panicparse/v2/stack"

	"verifsim/core"
	"verifsim/gen"
)

// ---- C06: determinism under every map iteration order ------------------------
//
// This file is compiled only into the mapsim build, in which every
// range-over-map of package stack asks the simulator for its order
// (cmd/maprewrite + go build -overlay).

// C06Extra is the environment and option part of a C06 case.
type C06Extra struct {
	Dir     string     `json:"dir"`
	Files   []TreeFile `json:"files"`
	GOROOT  string     `json:"goroot"`
	GOPATHs []string   `json:"gopaths"`
	Guess   bool       `json:"guess_paths"`
	Analyze bool       `json:"analyze_sources"`
	Modes   []string   `json:"map_orders"` // "mode@seed"
	Flags   []string   `json:"pp_flags,omitempty"`
	// Others are further inputs handled by the same process, over the same
	// tree, between two executions of the case's own input (history).
	Others []*gen.Doc `json:"other_inputs,omitempty"`
}

var reCreated = regexp.MustCompile(`Created on [^<]*`)
var reProcs = regexp.MustCompile(`GOMAXPROCS: \d+`)

func maskHTML(b []byte) []byte {
	b = reCreated.ReplaceAll(b, []byte("Created on MASKED"))
	return reProcs.ReplaceAll(b, []byte("GOMAXPROCS: N"))
}

// c06Result is everything observable of one execution.
type c06Result struct {
	snap   *stack.Snapshot
	aggs   []*stack.Aggregated
	html   [][]byte
	shtml  []byte
	shtml0 []byte // the same rendering, made before any aggregation
	err    string
	panic_ string
}

func init() { SetStackClock = stack.VerifSetMapOrder }

func c06Exec(b []byte, ex *C06Extra, nameArgs bool, mode string, shared ...*stack.Opts) (res c06Result) {
	m, seedS, _ := strings.Cut(mode, "@")
	var seed uint64
	fmt.Sscan(seedS, &seed)
	stack.VerifSetMapOrder(m, seed)
	defer stack.VerifSetMapOrder("", 0)
	defer func() {
		if p := recover(); p != nil {
			res.panic_ = fmt.Sprint(p)
		}
	}()
	opts := c06Opts(ex, nameArgs)
	if len(shared) > 0 {
		// one options value for several calls, as the command uses one for all
		// the dumps of a stream
		opts = shared[0]
	}
	s, _, err := stack.ScanSnapshot(bytes.NewReader(b), io.Discard, opts)
	res.snap = s
	res.err = ErrKey(err)
	if s == nil {
		return
	}
	var h0 bytes.Buffer
	_ = s.ToHTML(&h0, "")
	res.shtml0 = maskHTML(h0.Bytes())
	for _, lvl := range []stack.Similarity{stack.ExactFlags, stack.ExactLines, stack.AnyPointer, stack.AnyValue} {
		a := s.Aggregate(lvl)
		res.aggs = append(res.aggs, a)
		var h bytes.Buffer
		if err := a.ToHTML(&h, ""); err != nil {
			res.err += "|html:" + err.Error()
		}
		res.html = append(res.html, maskHTML(h.Bytes()))
	}
	var h bytes.Buffer
	_ = s.ToHTML(&h, "")
	res.shtml = maskHTML(h.Bytes())
	return
}

func c06Opts(ex *C06Extra, nameArgs bool) *stack.Opts {
	return &stack.Opts{LocalGOROOT: ex.GOROOT, LocalGOPATHs: ex.GOPATHs, NameArguments: nameArgs, GuessPaths: ex.Guess, AnalyzeSources: ex.Guess && ex.Analyze}
}

func bucketIDs(a *stack.Aggregated) string {
	var parts []string
	for _, b := range a.Buckets {
		parts = append(parts, fmt.Sprint(b.IDs))
	}
	return strings.Join(parts, " ")
}

func (r *c06Result) digest() string {
	var parts [][]byte
	parts = append(parts, []byte(r.err), []byte(r.panic_), []byte(Describe(r.snap)))
	if r.snap != nil {
		parts = append(parts, []byte(fmt.Sprintf("%+v|%+v|%s", r.snap.RemoteGOPATHs, r.snap.LocalGomods, r.snap.RemoteGOROOT)))
		for _, g := range r.snap.Goroutines {
			parts = append(parts, []byte(fmt.Sprintf("%+v", *g)))
		}
	}
	for i, a := range r.aggs {
		parts = append(parts, []byte(bucketIDs(a)), r.html[i])
		for _, b := range a.Buckets {
			parts = append(parts, []byte(fmt.Sprintf("%+v", *b)))
		}
	}
	parts = append(parts, r.shtml)
	return core.Hash(parts...)
}

func levelName(i int) string {
	return []string{"ExactFlags", "ExactLines", "AnyPointer", "AnyValue"}[i]
}

func c06Compare(c *Case, ref, got *c06Result, refMode, mode string) []*Violation {
	var vs []*Violation
	add := func(clause, msg string) {
		vs = append(vs, &Violation{Prop: "C06", Clause: "C06." + clause, Msg: fmt.Sprintf("map order %q vs %q: %s", mode, refMode, msg), Case: c})
	}
	if got.panic_ != "" || ref.panic_ != "" {
		add("panic", got.panic_+ref.panic_)
		return vs
	}
	if ref.err != got.err {
		add("snapshot", fmt.Sprintf("error %s vs %s", got.err, ref.err))
		return vs
	}
	if !SnapEqual(ref.snap, got.snap) {
		d := DiffSnap(ref.snap, got.snap)
		if ref.snap != nil && got.snap != nil && d == "snapshot fields other than Goroutines differ" {
			d = fmt.Sprintf("RemoteGOROOT %q vs %q, RemoteGOPATHs %v vs %v, LocalGomods %v vs %v", got.snap.RemoteGOROOT, ref.snap.RemoteGOROOT, got.snap.RemoteGOPATHs, ref.snap.RemoteGOPATHs, got.snap.LocalGomods, ref.snap.LocalGomods)
		}
		add("snapshot", "snapshots differ: "+d)
		return vs
	}
	for i := range ref.aggs {
		if i >= len(got.aggs) {
			break
		}
		if bucketIDs(ref.aggs[i]) != bucketIDs(got.aggs[i]) {
			add("bucket-order", fmt.Sprintf("Aggregate(%s): buckets (by goroutine ids) %s vs %s", levelName(i), bucketIDs(got.aggs[i]), bucketIDs(ref.aggs[i])))
			return vs
		}
		if !reflect.DeepEqual(ref.aggs[i].Buckets, got.aggs[i].Buckets) {
			msg := ""
			for j := range ref.aggs[i].Buckets {
				if !reflect.DeepEqual(ref.aggs[i].Buckets[j], got.aggs[i].Buckets[j]) {
					msg = fmt.Sprintf("bucket %d (ids %v): %s", j, ref.aggs[i].Buckets[j].IDs, diffValue("", reflect.ValueOf(ref.aggs[i].Buckets[j].Signature), reflect.ValueOf(got.aggs[i].Buckets[j].Signature)))
					break
				}
			}
			add("signature", fmt.Sprintf("Aggregate(%s): merged signatures differ: %s", levelName(i), msg))
			return vs
		}
		if !bytes.Equal(ref.html[i], got.html[i]) {
			add("html", fmt.Sprintf("Aggregate(%s).ToHTML differs at byte %d", levelName(i), FirstDiff(ref.html[i], got.html[i])))
			return vs
		}
	}
	if !bytes.Equal(ref.shtml, got.shtml) {
		add("html", fmt.Sprintf("Snapshot.ToHTML differs at byte %d", FirstDiff(ref.shtml, got.shtml)))
	}
	return vs
}

func writeTree(ex *C06Extra) error {
	return writeTreeFiles(ex.Dir, ex.Files)
}

// CheckC06 executes one case: every listed map order against the first.
func CheckC06(c *Case, cov *Cov) []*Violation {
	if c.Mode == "ppmap" {
		return checkPPMap(c, cov)
	}
	if c.Mode == "prochist" {
		return checkProcHist(c, cov)
	}
	if c.Mode == "slowsrc" {
		return checkSlowSrc(c, cov)
	}
	var ex C06Extra
	if err := json.Unmarshal(c.Extra, &ex); err != nil {
		panic(err)
	}
	if err := writeTree(&ex); err != nil {
		panic(err)
	}
	if ex.Dir != "" {
		defer os.RemoveAll(ex.Dir)
	}
	return c06Check(c, &ex, cov)
}

func c06Check(c *Case, ex *C06Extra, cov *Cov) []*Violation {
	b := c.Stream().Bytes
	var vs []*Violation
	seen := map[string]bool{}
	var ref c06Result
	for i, mode := range ex.Modes {
		got := c06Exec(b, ex, c.NameArgs, mode)
		if cov != nil {
			cov.Evaluations++
			cov.AddDigest(got.digest())
			if got.snap != nil {
				for _, g := range got.snap.Goroutines {
					for _, cl := range g.Stack.Calls {
						if len(cl.Args.Processed) > 0 {
							cov.Probe("calls-augmented-from-sources")
						}
					}
				}
			}
		}
		if !bytes.Equal(got.shtml0, got.shtml) && !seen["C06.history"] {
			seen["C06.history"] = true
			vs = append(vs, &Violation{Prop: "C06", Clause: "C06.history", Case: c, Msg: fmt.Sprintf("map order %q: Snapshot.ToHTML renders differently after the Aggregate/ToHTML calls than before them (first difference at byte %d): the result depends on earlier calls in the same process", mode, FirstDiff(got.shtml0, got.shtml))})
		}
		if i == 0 {
			ref = got
			continue
		}
		for _, v := range c06Compare(c, &ref, &got, ex.Modes[0], mode) {
			if !seen[v.Clause] {
				seen[v.Clause] = true
				vs = append(vs, v)
			}
		}
	}
	// history independence: the first order again, after everything else ran
	// (the other map orders of this input, and other inputs over the same tree)
	if len(ex.Modes) > 0 {
		// the other inputs and the repetition share ONE options value
		hopts := c06Opts(ex, c.NameArgs)
		for _, od := range ex.Others {
			ob := gen.Render(od).Bytes
			o := c06Exec(ob, ex, c.NameArgs, ex.Modes[0], hopts)
			if cov != nil {
				cov.Evaluations++
				cov.AddDigest(o.digest())
				cov.Probe("history:other-input-between")
			}
		}
		again := c06Exec(b, ex, c.NameArgs, ex.Modes[0], hopts)
		for _, v := range c06Compare(c, &ref, &again, ex.Modes[0], ex.Modes[0]+" (repeated after the other executions)") {
			v.Clause = "C06.history"
			if !seen[v.Clause] {
				seen[v.Clause] = true
				vs = append(vs, v)
			}
		}
	}
	return vs
}

func genTree(r *core.Rng, dir string) (*C06Extra, []string) {
	t, remote := genTreeEnv(r, dir)
	return &C06Extra{Dir: t.Dir, Files: t.Files, GOROOT: t.GOROOT, GOPATHs: t.GOPATHs, Guess: true, Analyze: r.Chance(0.4)}, remote
}

func c06Modes(r *core.Rng, n int) []string {
	modes := []string{"sorted@0", "reverse@0", "rot:1@0", fmt.Sprintf("rot:%d@0", r.Range(2, 5))}
	for i := 0; i < n; i++ {
		modes = append(modes, fmt.Sprintf("perm@%d", r.Uint64()%1000000))
	}
	modes = append(modes, "@0") // the runtime's own order (uncontrolled, supplementary)
	return modes
}

// RunC06 is one simulated run.
func RunC06(r *core.Rng, run, seed uint64, tier string, cov *Cov) []*Violation {
	base := os.Getenv("VERIF_TMP")
	if base == "" {
		base = os.TempDir()
	}
	dir := fmt.Sprintf("%s/verif-c06/%d/%d", base, seed, run)
	var ex *C06Extra
	var files []string
	withTree := r.Chance(0.6)
	if withTree {
		ex, files = genTree(r, dir)
		if err := writeTree(ex); err != nil {
			panic(err)
		}
		defer os.RemoveAll(dir)
	} else {
		ex = &C06Extra{}
	}
	ex.Modes = c06Modes(r, 3)
	var doc *gen.Doc
	if r.Chance(0.85) {
		mpg := []int{1, 2, 4, 8}[r.Intn(4)]
		if r.Chance(0.06) {
			// a large population (dozens of goroutines, many in the same files)
			mpg = 32
			cov.Probe("large-population")
		}
		groups := r.Range(1, 5)
		doc = gen.GenerateSimilar(r, gen.SimilarCfg{Groups: groups, MaxPerGrp: mpg, Files: files, Shuffle: r.Chance(0.5), DupIDs: r.Chance(0.15)})
	} else {
		cfg := gen.DefaultCfg(r)
		cfg.MinDumps, cfg.MaxDumps = 1, 1
		cfg.Long, cfg.VeryLong = false, false
		doc = gen.Generate(r, cfg)
	}
	nameArgs := r.Chance(0.7)
	// further inputs over the same tree, each using few of its files, handled
	// by the same process in between (cross-input history)
	if r.Chance(0.6) {
		for i, n := 0, r.Range(1, 2); i < n; i++ {
			sub := files
			if len(files) > 2 {
				p := r.Perm(len(files))
				sub = []string{files[p[0]], files[p[1]]}
			}
			ex.Others = append(ex.Others, gen.GenerateSimilar(r, gen.SimilarCfg{Groups: r.Range(1, 2), MaxPerGrp: 2, Files: sub}))
		}
	}
	exj, _ := json.Marshal(ex)
	c := &Case{Prop: "C06", Run: run, Seed: seed, Mode: "mapsim", Doc: doc, NameArgs: nameArgs, Extra: exj}
	b := gen.Render(doc).Bytes
	ih := core.Hash(b, exj)
	cov.Inputs[ih]++
	vs := c06Check(c, ex, cov)
	// and the other way round: each other input, with the main one in between
	for i, od := range ex.Others {
		ex2 := *ex
		ex2.Modes = ex.Modes[:2]
		ex2.Others = []*gen.Doc{doc}
		for j, x := range ex.Others {
			if j != i {
				ex2.Others = append(ex2.Others, x)
			}
		}
		ex2j, _ := json.Marshal(&ex2)
		c2 := &Case{Prop: "C06", Run: run, Seed: seed, Mode: "mapsim", Doc: od, NameArgs: nameArgs, Extra: ex2j}
		vs = append(vs, c06Check(c2, &ex2, cov)...)
	}
	// non-trivial: at least one range-over-map iterated over >= 2 entries
	st := stack.VerifMapStats()
	multi := 0
	for _, k := range SortedKeys(st) {
		cov.Probes["iter:"+k] += st[k][0]
		cov.Probes["iter>=2:"+k] += st[k][1]
		multi += st[k][1]
	}
	if multi > 0 {
		for _, m := range ex.Modes {
			cov.Distinct[core.Hash([]byte(ih), []byte(m))]++
		}
	}
	if len(cov.Samples) < 2 {
		cov.Samples = append(cov.Samples, map[string]any{"stream": Clip(b, 600), "map_orders": ex.Modes, "tree_files": len(ex.Files), "guess_paths": ex.Guess, "gopaths": ex.GOPATHs})
	}
	return vs
}

func init() {
	register(&Spec{
		ID: "C06", Level: "exploration",
		Run:   RunC06,
		Check: CheckC06,
		Quick: 1200, Thorough: 60000,
		Rule:            "one evaluation = ScanSnapshot + Aggregate at all 4 similarity levels + both ToHTML renderings of one generated dump (groups of goroutines with equal frames and differing arguments/sleep/lock so that buckets merge and tie; optionally a per-run directory tree with overlapping GOPATH roots and nested go.mod roots and GuessPaths on) under one simulator-chosen map iteration order; per input the orders sorted, reverse, two rotations, three seeded permutations (each with its own insertion-visit coins) and the runtime's own order are compared, then the first order again (history); distinct_nontrivial = distinct (input, order) pairs in runs where some range-over-map iterated over >= 2 entries; a sample of runs is re-executed in fresh processes (other GOMAXPROCS) and the result digests compared; the pp binary built from the same overlay is compared byte-wise across orders in the ppmap stage; the command's loop (internal.process) is compared between the first call of a fresh process and the same call after earlier calls with other options in the command-loop-history stage",
		Assumptions:     []string{"map iteration order is controlled by a build-time rewrite of every range-over-map in package stack (cmd/maprewrite, go build -overlay); /repo itself is not modified", "the directory tree is fixed environment, not a fault", "the HTML lines 'Created on' and 'GOMAXPROCS' are masked"},
		Real:            []string{"stack.ScanSnapshot (incl. guessPaths/findRoots/updateLocations, nameArguments, augment)", "Snapshot.Aggregate", "Aggregated.ToHTML / Snapshot.ToHTML", "pp binary (ppmap stage)", "internal.process (command-loop-history stage, driver overlaid into package internal)"},
		Stubs:           []string{"map iteration order (verifIter)", "directory tree built per run"},
		ShrinkBudget:    600,
		Post:            postC06,
		Posts:           []func(seed uint64, tier string, cov *Cov) ([]*Violation, map[string]any, error){postC06Hist, postC06Slow},
		IsolationClause: "C06.process",
		NondetClause:    "C06.scheduling",
		MustReach:       []string{"calls-augmented-from-sources", "slow-source-file:read-by-the-library", "command-loop-history", "history:other-input-between", "pp-executions"},
	})
}

// ---- ppmap stage: the pp binary built from the same overlay ------------------

func runPP(bin string, b []byte, ex *C06Extra, mode string) (string, error) {
	cwd := ""
	if m, c, ok := strings.Cut(mode, "|cwd="); ok {
		mode, cwd = m, c
	}
	cmd := exec.Command(bin, ex.Flags...)
	cmd.Dir = cwd
	cmd.Stdin = bytes.NewReader(b)
	env := []string{"VERIF_MAPORDER=" + mode, "HOME=/nonexistent", "TERM=dumb", "PATH=/usr/bin:/bin"}
	if ex.Dir != "" {
		env = append(env, "GOROOT="+ex.GOROOT, "GOPATH="+strings.Join(ex.GOPATHs, ":"))
	} else {
		env = append(env, "GOPATH=/nonexistent/gopath")
	}
	cmd.Env = env
	var out, errb bytes.Buffer
	cmd.Stdout, cmd.Stderr = &out, &errb
	err := cmd.Run()
	code := 0
	if err != nil {
		ee, ok := err.(*exec.ExitError)
		if !ok {
			return "", err
		}
		code = ee.ExitCode()
	}
	return fmt.Sprintf("exit=%d\n%s\n--stderr--\n%s", code, out.String(), errb.String()), nil
}

func checkPPMap(c *Case, cov *Cov) []*Violation {
	bin := os.Getenv("VERIF_PP_MAPSIM")
	if bin == "" {
		panic("VERIF_PP_MAPSIM not set (run through /verif/run.sh)")
	}
	var ex C06Extra
	if err := json.Unmarshal(c.Extra, &ex); err != nil {
		panic(err)
	}
	if err := writeTree(&ex); err != nil {
		panic(err)
	}
	if ex.Dir != "" {
		defer os.RemoveAll(ex.Dir)
	}
	b := c.Stream().Bytes
	var ref string
	for i, m := range ex.Modes {
		out, err := runPP(bin, b, &ex, m)
		if err != nil {
			panic(err)
		}
		if cov != nil {
			cov.Evaluations++
			cov.Probe("pp-executions")
		}
		if i == 0 {
			ref = out
			continue
		}
		if out != ref {
			return []*Violation{{Prop: "C06", Clause: "C06.console", Case: c, Msg: fmt.Sprintf("pp %v: output under map order %q differs from %q at byte %d: %s vs %s", ex.Flags, m, ex.Modes[0], FirstDiff([]byte(ref), []byte(out)), Clip(lastFrom([]byte(out), FirstDiff([]byte(ref), []byte(out))), 160), Clip(lastFrom([]byte(ref), FirstDiff([]byte(ref), []byte(out))), 160))}}
		}
	}
	return nil
}

func lastFrom(b []byte, i int) []byte {
	if i < 0 {
		return nil
	}
	if i > 40 {
		i -= 40
	} else {
		i = 0
	}
	return b[i:]
}

func postC06(seed uint64, tier string, cov *Cov) ([]*Violation, map[string]any, error) {
	bin := os.Getenv("VERIF_PP_MAPSIM")
	if bin == "" {
		return nil, map[string]any{"ppmap_stage": "skipped: VERIF_PP_MAPSIM not set"}, nil
	}
	n := 40
	if tier == "thorough" {
		n = 1500
	}
	base := os.Getenv("VERIF_TMP")
	if base == "" {
		base = os.TempDir()
	}
	var vs []*Violation
	flagSets := [][]string{{}, {"-full-path"}, {"-rel-path"}, {"-aggressive"}, {"-force-color"}, {"-parse=false"}, {"-rebase=false"}}
	for i := 0; i < n; i++ {
		r := core.NewRng(core.Mix(seed, "C06/ppmap", uint64(i)))
		dir := fmt.Sprintf("%s/verif-c06/%d/pp%d", base, seed, i)
		var ex *C06Extra
		var files []string
		if r.Chance(0.7) {
			ex, files = genTree(r, dir)
		} else {
			ex = &C06Extra{}
		}
		ex.Modes = []string{"sorted@0", "reverse@0", fmt.Sprintf("perm@%d", r.Intn(1000000)), "@0"}
		if ex.Dir != "" {
			// the same run started from other working directories (inside the tree)
			ex.Modes = append(ex.Modes, "sorted@0|cwd="+ex.Dir+"/mod", "sorted@0|cwd="+ex.Dir+"/gopath1/src")
		}
		ex.Flags = flagSets[r.Intn(len(flagSets))]
		doc := gen.GenerateSimilar(r, gen.SimilarCfg{Groups: r.Range(1, 5), MaxPerGrp: []int{1, 2, 4, 8}[r.Intn(4)], Files: files, Shuffle: r.Chance(0.5)})
		exj, _ := json.Marshal(ex)
		c := &Case{Prop: "C06", Run: uint64(i), Seed: seed, Mode: "ppmap", Doc: doc, NameArgs: true, Extra: exj}
		for _, v := range checkPPMap(c, cov) {
			if len(vs) < 3 {
				vs = append(vs, v)
			}
		}
	}
	return vs, map[string]any{"ppmap_stage": fmt.Sprintf("%d inputs x 4 map orders (+ 2 other working directories when a tree exists) on the pp binary built from the same overlay (flags drawn from %v)", n, flagSets)}, nil
}

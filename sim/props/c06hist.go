//go:build mapsim

package props

import (
	"encoding/json"
	"fmt"
	"os"
	"os/exec"
	"strings"
	"time"

	"verifsim/core"
	"verifsim/gen"
)

// ---- C06, "earlier calls in the same process", at the command's loop ---------
//
// The command's loop (internal.process) is what turns options into a result;
// the pp binary runs it once per process, tests and embedders run it many
// times. One case = a target call (input, similarity, path format, -parse,
// -rebase, -f, -m) executed (a) as the first call of a fresh process and (b) in
// another fresh process after 1..3 other calls with other options and inputs
// over the same directory tree. The two outputs of the target call must be
// identical.

// HistCall is one call of the command's loop.
type HistCall struct {
	Doc    *gen.Doc `json:"doc"`
	Sim    int      `json:"similarity"`
	PF     int      `json:"path_format"`
	Parse  bool     `json:"parse"`
	Rebase bool     `json:"rebase"`
	Filter string   `json:"filter,omitempty"`
	Match  string   `json:"match,omitempty"`
	// Rewrite: files of the tree rewritten in place right before this call,
	// with modification time treeMtime + MtimeMs.
	Rewrite []TreeFile `json:"rewrite,omitempty"`
	MtimeMs int        `json:"mtime_ms,omitempty"`
}

// treeMtime is the modification time every file of a history case's tree gets.
var treeMtime = time.Date(2026, 1, 1, 0, 0, 0, 0, time.UTC)

func stampTree(files []TreeFile) {
	for _, f := range files {
		os.Chtimes(f.Path, treeMtime, treeMtime)
	}
}

// C06HistExtra: the tree and the calls; the last call is the target.
type C06HistExtra struct {
	Dir     string     `json:"dir"`
	Files   []TreeFile `json:"files"`
	GOROOT  string     `json:"goroot"`
	GOPATHs []string   `json:"gopaths"`
	Calls   []HistCall `json:"calls"`
}

func runHist(bin string, ex *C06HistExtra, calls []HistCall) ([]string, error) {
	var w []HistCallWire
	for _, c := range calls {
		w = append(w, HistCallWire{In: gen.Render(c.Doc).Bytes, Sim: c.Sim, PF: c.PF, Parse: c.Parse, Rebase: c.Rebase, Filter: c.Filter, Match: c.Match, Rewrite: c.Rewrite, MtimeNs: treeMtime.Add(time.Duration(c.MtimeMs) * time.Millisecond).UnixNano()})
	}
	f, err := os.CreateTemp("", "clisim-hist-*.json")
	if err != nil {
		return nil, err
	}
	defer os.Remove(f.Name())
	json.NewEncoder(f).Encode(w)
	f.Close()
	of := f.Name() + ".out"
	defer os.Remove(of)
	cmd := exec.Command(bin, "-test.run=^TestClisim$")
	env := []string{"HOME=/nonexistent", "TERM=dumb", "PATH=/usr/bin:/bin", "CLISIM_TRACEBACK=all", "CLISIM_MODE=prochist", "CLISIM_CASE=" + f.Name(), "CLISIM_OUT=" + of}
	if ex.Dir != "" {
		env = append(env, "GOROOT="+ex.GOROOT, "GOPATH="+strings.Join(ex.GOPATHs, ":"))
	} else {
		env = append(env, "GOPATH=/nonexistent/gopath")
	}
	cmd.Env = env
	if ob, err := cmd.CombinedOutput(); err != nil {
		return nil, fmt.Errorf("clisim driver: %v: %s", err, clipS(string(ob), 800))
	}
	b, err := os.ReadFile(of)
	if err != nil {
		return nil, err
	}
	var res []string
	if err := json.Unmarshal(b, &res); err != nil {
		return nil, err
	}
	if len(res) != len(calls) {
		return nil, fmt.Errorf("clisim driver: %d results for %d calls", len(res), len(calls))
	}
	return res, nil
}

func checkProcHist(c *Case, cov *Cov) []*Violation {
	bin := clisimBin()
	if bin == "" {
		panic("VERIF_CLISIM_BIN not set (run through /verif/run.sh)")
	}
	var ex C06HistExtra
	if err := json.Unmarshal(c.Extra, &ex); err != nil {
		panic(err)
	}
	if len(ex.Calls) < 2 {
		return nil
	}
	if err := writeTreeFiles(ex.Dir, ex.Files); err != nil {
		panic(err)
	}
	if ex.Dir != "" {
		defer os.RemoveAll(ex.Dir)
	}
	stampTree(ex.Files)
	target := ex.Calls[len(ex.Calls)-1]
	alone, err := runHist(bin, &ex, []HistCall{target})
	if err != nil {
		panic(err)
	}
	if len(target.Rewrite) > 0 {
		// the first execution rewrote files: back to the tree as generated
		if err := writeTreeFiles(ex.Dir, ex.Files); err != nil {
			panic(err)
		}
		stampTree(ex.Files)
		if cov != nil {
			cov.Probe("source-rewritten-between-calls")
		}
	}
	after, err := runHist(bin, &ex, ex.Calls)
	if err != nil {
		panic(err)
	}
	if cov != nil {
		cov.Evaluations += 2
		cov.Probe("command-loop-history")
	}
	a, b := alone[0], after[len(after)-1]
	if a != b {
		d := FirstDiff([]byte(a), []byte(b))
		var h []string
		for _, x := range ex.Calls[:len(ex.Calls)-1] {
			h = append(h, fmt.Sprintf("{similarity %d, path format %d, parse=%v, rebase=%v}", x.Sim, x.PF, x.Parse, x.Rebase))
		}
		return []*Violation{{Prop: "C06", Clause: "C06.history", Case: c, Msg: fmt.Sprintf("[pp command loop] the same input with the same options {similarity %d, path format %d, parse=%v, rebase=%v} gives another output after %d earlier call(s) in the same process (%s) than as the first call of a process: at byte %d %s vs %s", target.Sim, target.PF, target.Parse, target.Rebase, len(h), strings.Join(h, ", "), d, Clip(lastFrom([]byte(b), d), 160), Clip(lastFrom([]byte(a), d), 160))}}
	}
	return nil
}

func postC06Hist(seed uint64, tier string, cov *Cov) ([]*Violation, map[string]any, error) {
	if clisimBin() == "" {
		return nil, map[string]any{"command_loop_history_stage": "skipped: VERIF_CLISIM_BIN not set"}, nil
	}
	n := 40
	if tier == "thorough" {
		n = 1200
	}
	base := os.Getenv("VERIF_TMP")
	if base == "" {
		base = os.TempDir()
	}
	var vs []*Violation
	for i := 0; i < n; i++ {
		r := core.NewRng(core.Mix(seed, "C06/prochist", uint64(i)))
		dir := fmt.Sprintf("%s/verif-c06/%d/hist%d", base, seed, i)
		ex := &C06HistExtra{}
		var files []string
		if r.Chance(0.85) {
			t, remote := genTreeEnv(r, dir)
			ex.Dir, ex.Files, ex.GOROOT, ex.GOPATHs = t.Dir, t.Files, t.GOROOT, t.GOPATHs
			files = remote
		}
		mkDoc := func() *gen.Doc {
			return gen.GenerateSimilar(r, gen.SimilarCfg{Groups: r.Range(1, 4), MaxPerGrp: []int{1, 2, 4}[r.Intn(3)], Files: files, Shuffle: r.Chance(0.5)})
		}
		doc := mkDoc()
		mkCall := func(d *gen.Doc) HistCall {
			return HistCall{Doc: d, Sim: r.Intn(4), PF: r.Intn(3), Parse: r.Chance(0.6), Rebase: r.Chance(0.6)}
		}
		nh := r.Range(1, 3)
		for j := 0; j < nh; j++ {
			d := doc
			if r.Chance(0.4) {
				d = mkDoc()
			}
			ex.Calls = append(ex.Calls, mkCall(d))
		}
		// the target: most often with everything on (what an earlier call with
		// something off could spoil), sometimes drawn like the others
		t := mkCall(doc)
		if r.Chance(0.6) {
			t.Parse, t.Rebase = true, true
		}
		// the disk as a fault: source files rewritten in place between the
		// earlier calls and the target (other parameter types on the same
		// lines), 300 ms or 2 s after the tree's modification time. The
		// target's output must be that of a fresh process over the tree as it
		// is then.
		if ex.Dir != "" && (i%3 == 1 || r.Chance(0.15)) {
			for _, f := range ex.Files {
				if f.Content == goSrc && r.Chance(0.7) {
					t.Rewrite = append(t.Rewrite, TreeFile{Path: f.Path, Content: goSrcRewritten})
				}
			}
			t.MtimeMs = []int{300, 2000}[r.Intn(2)]
			t.Parse = true
		}
		ex.Calls = append(ex.Calls, t)
		exj, _ := json.Marshal(ex)
		c := &Case{Prop: "C06", Run: uint64(i), Seed: seed, Mode: "prochist", Doc: doc, NameArgs: true, Extra: exj}
		for _, v := range checkProcHist(c, cov) {
			if len(vs) < 3 {
				vs = append(vs, v)
			}
		}
	}
	return vs, map[string]any{"command_loop_history_stage": fmt.Sprintf("%d cases: a call of the command's loop (internal.process) as the first call of a fresh process vs after 1-3 earlier calls with other similarity / path format / -parse / -rebase values and inputs over the same directory tree", n)}, nil
}

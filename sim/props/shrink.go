package props

import (
	"fmt"
	"strings"

	"verifsim/gen"
	"verifsim/iosim"
)

// Shrink minimises a failing case by delta debugging over the structured
// stream and the schedule. still must return true while the *same* failure
// persists. The number of evaluations is bounded.
func Shrink(c *Case, still func(*Case) bool, budget int) *Case {
	cur := cloneCase(c)
	evals := 0
	try := func(cand *Case) bool {
		if evals >= budget {
			return false
		}
		evals++
		if still(cand) {
			cur = cand
			return true
		}
		return false
	}
	for changed := true; changed && evals < budget; {
		changed = false
		// 1. schedule: simplest first
		if cur.Cut == nil {
			if len(cur.Sched.Steps) > 2 || len(cur.Sched.Short) > 0 {
				cand := cloneCase(cur)
				cand.Sched = iosim.Schedule{}
				if try(cand) {
					changed = true
				}
			}
		}
		if len(cur.Sched.Short) > 0 {
			cand := cloneCase(cur)
			cand.Sched.Short = nil
			if try(cand) {
				changed = true
			}
		}
		// drop zero-read steps, merge writes
		for i := 0; i < len(cur.Sched.Steps); i++ {
			st := cur.Sched.Steps[i]
			if st.Op == "z" {
				cand := cloneCase(cur)
				cand.Sched.Steps = append(append([]iosim.Step{}, cur.Sched.Steps[:i]...), cur.Sched.Steps[i+1:]...)
				if try(cand) {
					changed = true
					i--
				}
				continue
			}
			if st.Op == "w" && i+1 < len(cur.Sched.Steps) && cur.Sched.Steps[i+1].Op == "w" {
				cand := cloneCase(cur)
				steps := append([]iosim.Step{}, cur.Sched.Steps[:i]...)
				steps = append(steps, iosim.Step{Op: "w", N: st.N + cur.Sched.Steps[i+1].N})
				steps = append(steps, cur.Sched.Steps[i+2:]...)
				cand.Sched.Steps = steps
				if try(cand) {
					changed = true
					i--
				}
			}
		}
		for i := range cur.Sched.Steps {
			if cur.Sched.Steps[i].With {
				cand := cloneCase(cur)
				cand.Sched.Steps = append([]iosim.Step{}, cur.Sched.Steps...)
				cand.Sched.Steps[i].With = false
				if try(cand) {
					changed = true
				}
			}
		}
		if cur.Doc == nil {
			// raw bytes: drop lines
			lines := splitLines(cur.Raw)
			for chunk := len(lines) / 2; chunk >= 1; chunk /= 2 {
				for i := 0; i+chunk <= len(lines); {
					cand := cloneCase(cur)
					nl := append(append([][]byte{}, lines[:i]...), lines[i+chunk:]...)
					cand.Raw = joinLines(nl)
					if try(cand) {
						lines = nl
						changed = true
					} else {
						i += chunk
					}
				}
			}
			continue
		}
		// tryDoc applies a mutation to a copy of the stream; split points and
		// the cut are kept where they were relative to the surviving content.
		tryDoc := func(mut func(d *gen.Doc)) bool {
			cand := cloneCase(cur)
			mut(cand.Doc)
			ob := gen.Render(cur.Doc).Bytes
			nb := gen.Render(cand.Doc).Bytes
			p := 0
			for p < len(ob) && p < len(nb) && ob[p] == nb[p] {
				p++
			}
			q := 0
			for q < len(ob)-p && q < len(nb)-p && ob[len(ob)-1-q] == nb[len(nb)-1-q] {
				q++
			}
			ra, rb := p, len(ob)-q // removed range of the old rendering
			ins := len(nb) - q - p // bytes inserted in its place
			cand2 := cloneCase(cand)
			cand2.Sched = adjustSched(cur.Sched, ra, rb, ins)
			if cand.Cut != nil {
				switch {
				case cand.Cut.K >= rb:
					cand.Cut.K += ins - (rb - ra)
				case cand.Cut.K > ra:
					cand.Cut.K = ra
				}
				cand2.Cut = cand.Cut
				return try(cand2)
			}
			return try(cand2) || try(cand)
		}
		// 2. drop items, large chunks first
		for chunk := len(cur.Doc.Items) / 2; chunk >= 1; chunk /= 2 {
			for i := 0; i+chunk <= len(cur.Doc.Items); {
				i0, c0 := i, chunk
				if tryDoc(func(d *gen.Doc) {
					d.Items = append(append([]gen.Item{}, d.Items[:i0]...), d.Items[i0+c0:]...)
				}) {
					changed = true
				} else {
					i += chunk
				}
			}
		}
		// 3. inside dumps
		for ii := 0; ii < len(cur.Doc.Items); ii++ {
			ii := ii
			it := cur.Doc.Items[ii]
			switch it.Kind {
			case "dump":
				for gi := 0; gi < len(cur.Doc.Items[ii].Gors) && len(cur.Doc.Items[ii].Gors) > 1; {
					gi0 := gi
					if tryDoc(func(d *gen.Doc) {
						g := d.Items[ii].Gors
						d.Items[ii].Gors = append(append([]gen.Gor{}, g[:gi0]...), g[gi0+1:]...)
					}) {
						changed = true
					} else {
						gi++
					}
				}
				for gi := range cur.Doc.Items[ii].Gors {
					gi := gi
					for fi := 0; fi < len(cur.Doc.Items[ii].Gors[gi].Frames) && len(cur.Doc.Items[ii].Gors[gi].Frames) > 1; {
						fi0 := fi
						if tryDoc(func(d *gen.Doc) {
							f := d.Items[ii].Gors[gi].Frames
							d.Items[ii].Gors[gi].Frames = append(append([]gen.Frame{}, f[:fi0]...), f[fi0+1:]...)
						}) {
							changed = true
						} else {
							fi++
						}
					}
					if cur.Doc.Items[ii].Gors[gi].Created != nil {
						if tryDoc(func(d *gen.Doc) { d.Items[ii].Gors[gi].Created = nil }) {
							changed = true
						}
					}
					if cur.Doc.Items[ii].Gors[gi].Elided != "" {
						if tryDoc(func(d *gen.Doc) { d.Items[ii].Gors[gi].Elided = "" }) {
							changed = true
						}
					}
				}
				if it.Indent != "" {
					if tryDoc(func(d *gen.Doc) { d.Items[ii].Indent = ""; d.Items[ii].IndentBlank = false }) {
						changed = true
					}
				}
				if it.EOL == "\r\n" {
					if tryDoc(func(d *gen.Doc) { d.Items[ii].EOL = "\n" }) {
						changed = true
					}
				}
			case "race":
				// drop an operation together with its creation section
				for oi := 1; oi < len(cur.Doc.Items[ii].Ops); {
					oi0 := oi
					if tryDoc(func(d *gen.Doc) {
						it := &d.Items[ii]
						id := it.Ops[oi0].ID
						it.Ops = append(append([]gen.RaceSec{}, it.Ops[:oi0]...), it.Ops[oi0+1:]...)
						var cr []gen.RaceSec
						for _, c := range it.Creates {
							if c.ID != id {
								cr = append(cr, c)
							}
						}
						if len(cr) > 0 {
							it.Creates = cr
						} else {
							// keep the report well-formed: the remaining creation
							// section describes the first remaining operation
							it.Creates = it.Creates[:1]
							it.Creates[0].ID = it.Ops[0].ID
							it.Creates[0].Header = fmt.Sprintf("Goroutine %d (running) created at:", it.Ops[0].ID)
						}
					}) {
						changed = true
					} else {
						oi++
					}
				}
				for oi := range cur.Doc.Items[ii].Ops {
					oi := oi
					for fi := 0; fi < len(cur.Doc.Items[ii].Ops[oi].Frames) && len(cur.Doc.Items[ii].Ops[oi].Frames) > 1; {
						fi0 := fi
						if tryDoc(func(d *gen.Doc) {
							f := d.Items[ii].Ops[oi].Frames
							d.Items[ii].Ops[oi].Frames = append(append([]gen.Frame{}, f[:fi0]...), f[fi0+1:]...)
						}) {
							changed = true
						} else {
							fi++
						}
					}
				}
				for ci := 0; ci < len(cur.Doc.Items[ii].Creates) && len(cur.Doc.Items[ii].Creates) > 1; {
					ci0 := ci
					if tryDoc(func(d *gen.Doc) {
						cr := d.Items[ii].Creates
						d.Items[ii].Creates = append(append([]gen.RaceSec{}, cr[:ci0]...), cr[ci0+1:]...)
					}) {
						changed = true
					} else {
						ci++
					}
				}
				for ci := range cur.Doc.Items[ii].Creates {
					ci := ci
					for fi := 0; fi < len(cur.Doc.Items[ii].Creates[ci].Frames) && len(cur.Doc.Items[ii].Creates[ci].Frames) > 1; {
						fi0 := fi
						if tryDoc(func(d *gen.Doc) {
							f := d.Items[ii].Creates[ci].Frames
							d.Items[ii].Creates[ci].Frames = append(append([]gen.Frame{}, f[:fi0]...), f[fi0+1:]...)
						}) {
							changed = true
						} else {
							fi++
						}
					}
				}
			case "junk":
				t := strings.TrimRight(it.Text, "\r\n")
				eol := it.Text[len(t):]
				if len(t) > 6 {
					short := t[:1]
					if i := strings.IndexAny(t, ": "); i > 0 && i < 12 {
						short = t[:i]
					}
					if tryDoc(func(d *gen.Doc) { d.Items[ii].Text = short + eol }) {
						changed = true
					}
				}
			}
		}
	}
	if cur.Doc != nil {
		cur.Text = string(gen.Render(cur.Doc).Bytes)
		if len(cur.Text) > 20000 {
			cur.Text = cur.Text[:20000] + "…"
		}
	}
	return cur
}

func cloneCase(c *Case) *Case {
	n := *c
	if c.Doc != nil {
		n.Doc = c.Doc.Clone()
	}
	n.Raw = append([]byte(nil), c.Raw...)
	n.Sched = iosim.Schedule{Steps: append([]iosim.Step(nil), c.Sched.Steps...), Short: append([]int(nil), c.Sched.Short...)}
	if c.Cut != nil {
		k := *c.Cut
		n.Cut = &k
	}
	return &n
}

func splitLines(b []byte) [][]byte {
	var out [][]byte
	for len(b) > 0 {
		i := 0
		for i < len(b) && b[i] != '\n' {
			i++
		}
		if i < len(b) {
			i++
		}
		out = append(out, b[:i])
		b = b[i:]
	}
	return out
}

func joinLines(l [][]byte) []byte {
	var out []byte
	for _, x := range l {
		out = append(out, x...)
	}
	return out
}

// adjustSched removes the bytes [a,b) from the write steps covering them and
// adds ins bytes to the step that covers offset a.
func adjustSched(s iosim.Schedule, a, b, ins int) iosim.Schedule {
	out := iosim.Schedule{Short: append([]int(nil), s.Short...)}
	pos := 0
	added := ins == 0
	for _, st := range s.Steps {
		if st.Op != "w" {
			out.Steps = append(out.Steps, st)
			continue
		}
		lo, hi := pos, pos+st.N
		pos = hi
		ol, oh := lo, hi
		if ol < a {
			ol = a
		}
		if oh > b {
			oh = b
		}
		if oh > ol {
			st.N -= oh - ol
		}
		if !added && hi > a {
			st.N += ins
			added = true
		}
		if st.N > 0 {
			out.Steps = append(out.Steps, st)
		}
	}
	return out
}

package props

import (
	"bytes"
	"fmt"

	"verifsim/core"
	"verifsim/gen"
	"verifsim/iosim"
)

// ---- C09: reader delivery independence -------------------------------------
//
// For a fixed byte stream the sequence of per-call outcomes of the resume loop
// (snapshot, bytes forwarded, error class, remainder ++ unread input) and the
// final output are the same under every delivery schedule. The first call of
// the loop is the single-call statement of the property.

// callTuple is the schedule-independent outcome of one call.
type callTuple struct {
	res  *CallRes
	rem  []byte // suffix ++ unread at return
	errk string
}

// SetStackClock, when the binary is built with the clock overlay over package
// stack (stages/C09.sh; the same rewrite as C06's build), selects the clock the
// code under test reads: mode "reverse" jumps one second per reading, ""
// is the real clock. nil in builds without the overlay.
var SetStackClock func(mode string, seed uint64)

func loopUnder(b []byte, sched iosim.Schedule, nameArgs bool, cov *Cov, keep bool, bufio ...int) (*LoopRes, []callTuple, *iosim.SimReader) {
	clk := &core.Clock{}
	// Half of the scheduled (not one-shot) executions run with a clock that
	// jumps a second whenever the code under test looks at it: an outcome
	// that depends on how long the reader took (a time budget for empty
	// reads, a deadline) then differs from one-shot delivery.
	if SetStackClock != nil && len(sched.Steps) > 2 && (len(b)+len(sched.Steps))%2 == 0 {
		SetStackClock("reverse", 0)
		defer SetStackClock("", 0)
		if cov != nil {
			cov.Probe("jumping-clock")
		}
	}
	sr := iosim.NewSimReader(b, sched, clk)
	sr.KeepRecs = keep
	if len(bufio) > 0 && bufio[0] > 0 {
		sr.WrapBufio(bufio[0])
	}
	w := iosim.NewSimWriter(clk)
	var tuples []callTuple
	opts := (&Case{NameArgs: nameArgs}).Opts()
	maxCalls := bytes.Count(b, []byte("\n")) + 3
	lr := ScanLoop(sr, w, opts, maxCalls, func(call int, res *CallRes) {
		rem := append(append([]byte(nil), res.Suffix...), sr.Unread()...)
		tuples = append(tuples, callTuple{res: res, rem: rem, errk: ErrKey(res.Err)})
	})
	// the hook got a pointer to a copy; re-point to the stored results
	for i := range tuples {
		tuples[i].res = &lr.Calls[i]
	}
	if cov != nil {
		cov.Steps += clk.Now()
		cov.NoteReader(sr)
		cov.Faults.Writes += w.Writes
	}
	return lr, tuples, sr
}

// CheckC09 executes one case: baseline (one-shot delivery) against the case's
// schedule.
func CheckC09(c *Case, cov *Cov) []*Violation {
	if f := extraModes["C09/"+c.Mode]; f != nil {
		return f(c, cov)
	}
	b := c.Stream().Bytes
	sched := c.Sched.FitTo(len(b))
	base, bt, _ := loopUnder(b, iosim.OneShot(len(b)), c.NameArgs, nil, false)
	got, gt, _ := loopUnder(b, sched, c.NameArgs, cov, false, c.Bufio)
	return compareLoops("C09", c, b, base, bt, got, gt)
}

func compareLoops(prop string, c *Case, b []byte, base *LoopRes, bt []callTuple, got *LoopRes, gt []callTuple) []*Violation {
	var vs []*Violation
	add := func(clause, msg string) {
		vs = append(vs, &Violation{Prop: prop, Clause: prop + "." + clause, Msg: msg, Case: c})
	}
	if got.Panic != "" {
		add("panic", "panic under this schedule: "+got.Panic)
		return vs
	}
	if base.Panic != "" {
		add("panic", "panic under one-shot delivery: "+base.Panic)
		return vs
	}
	if got.Exceeded || got.NoProg {
		add("progress", fmt.Sprintf("resume loop does not terminate under this schedule (exceeded=%v noprogress=%v after %d calls)", got.Exceeded, got.NoProg, len(got.Calls)))
		return vs
	}
	n := len(bt)
	if len(gt) < n {
		n = len(gt)
	}
	for i := 0; i < n; i++ {
		x, y := bt[i], gt[i]
		if !SnapEqual(x.res.Snap, y.res.Snap) {
			add("snapshot", fmt.Sprintf("call %d: snapshot differs from one-shot delivery: %s; one-shot=%s; this=%s", i, DiffSnap(x.res.Snap, y.res.Snap), Describe(x.res.Snap), Describe(y.res.Snap)))
			return vs
		}
		if !bytes.Equal(x.res.Fwd, y.res.Fwd) {
			add("forwarded", fmt.Sprintf("call %d: forwarded bytes differ at offset %d: one-shot=%s this=%s", i, FirstDiff(x.res.Fwd, y.res.Fwd), Clip(x.res.Fwd, 120), Clip(y.res.Fwd, 120)))
			return vs
		}
		if x.errk != y.errk {
			add("error", fmt.Sprintf("call %d: error differs: one-shot=%s this=%s", i, x.errk, y.errk))
			return vs
		}
		if !bytes.Equal(x.rem, y.rem) {
			d := FirstDiff(x.rem, y.rem)
			add("remainder", fmt.Sprintf("call %d: remainder++unread differs (lengths %d vs %d, first difference at %d): one-shot=%s this=%s", i, len(x.rem), len(y.rem), d, Clip(x.rem, 120), Clip(y.rem, 120)))
			return vs
		}
	}
	if len(bt) != len(gt) {
		add("calls", fmt.Sprintf("number of calls differs: one-shot=%d this=%d", len(bt), len(gt)))
		return vs
	}
	// Out alone may legitimately differ when the loop stopped on an error
	// (how much of the tail was read ahead and flushed); Out ++ Rest may not.
	bo := append(append([]byte(nil), base.Out...), base.Rest...)
	gO := append(append([]byte(nil), got.Out...), got.Rest...)
	if !bytes.Equal(bo, gO) {
		add("forwarded", fmt.Sprintf("final output ++ unread differs at offset %d", FirstDiff(bo, gO)))
	}
	return vs
}

// hotOffsets lists offsets where a refill boundary is interesting.
func hotOffsets(s *gen.Stream) []int {
	var h []int
	for _, l := range s.Lines {
		if l.End-l.Start > 16000 {
			for m := 16384; m < l.End-l.Start+3; m += 16384 {
				h = append(h, l.Start+m-1, l.Start+m, l.Start+m+1)
			}
		}
		if l.Class == gen.Dump && l.End-l.Start > 12 {
			h = append(h, l.Start+9) // inside "goroutine N [" / a function name
		}
		if l.End-l.Start >= 2 {
			h = append(h, l.End-1) // before the end of line
		}
		h = append(h, l.End)
	}
	return h
}

// schedulesFor enumerates the delivery schedules explored for one stream.
func schedulesFor(r *core.Rng, s *gen.Stream, tier string, allSplitsMax int, nRandom int) []iosim.Schedule {
	n := len(s.Bytes)
	var out []iosim.Schedule
	if n == 0 {
		return []iosim.Schedule{iosim.OneShot(0), {Steps: []iosim.Step{{Op: "z", N: 99}, {Op: "close"}}}}
	}
	// every single split point, both ways of signalling EOF
	if n <= allSplitsMax {
		for k := 1; k < n; k++ {
			out = append(out, iosim.Split(k, n, k%2 == 0))
		}
		// the other EOF kind for a sample of the split points
		for k := 1; k < n; k += 1 + n/64 {
			out = append(out, iosim.Split(k, n, k%2 != 0))
		}
	} else {
		hot := hotOffsets(s)
		for i := 0; i < 400 && len(hot) > 0; i++ {
			k := hot[r.Intn(len(hot))] + r.Range(-2, 2)
			if k > 0 && k < n {
				out = append(out, iosim.Split(k, n, r.Chance(0.5)))
			}
		}
	}
	out = append(out, iosim.Schedule{Steps: []iosim.Step{{Op: "w", N: n}, {Op: "close", With: true}}})
	for _, ch := range []int{1, 2, 3, 7, 4095, 4096, 4097, 16383, 16384, 16385} {
		if ch == 1 && n > 40000 {
			continue
		}
		if ch <= n+1 {
			out = append(out, iosim.Fixed(ch, n, ch%2 == 1))
		}
	}
	hot := hotOffsets(s)
	for i := 0; i < nRandom; i++ {
		o := iosim.RandomOpts{
			MeanChunk: []float64{1.5, 4, 16, 64, 300, 5000}[r.Intn(6)],
			PZero:     []float64{0, 0, 0.05, 0.3}[r.Intn(4)],
			PShort:    []float64{0, 0, 0.2, 0.8}[r.Intn(4)],
			Hot:       hot,
			PHot:      []float64{0, 0.3, 0.9}[r.Intn(3)],
			With:      r.Chance(0.5),
		}
		out = append(out, iosim.Random(r, n, o))
	}
	return out
}

// RunC09 is one simulated run: one generated stream under all its schedules.
func RunC09(r *core.Rng, run uint64, seed uint64, tier string, cov *Cov) []*Violation {
	if run%40 == 7 {
		// a literal dump captured from the real runtime / race detector
		if cp := gen.Corpus(); len(cp) > 0 {
			e := cp[int(run/40)%len(cp)]
			cov.Probe("literal-corpus")
			return runC09Stream(r, nil, &gen.Stream{Bytes: e.Data, Lines: rawLines(e.Data)}, run, seed, tier, cov)
		}
	}
	cfg := gen.DefaultCfg(r)
	// stray race header lines: whatever happens to them (KF-1) must not depend
	// on the delivery either
	cfg.ExactRaceSep = r.Chance(0.15)
	// text right after the last frame that reads as a continuation of the dump
	cfg.UnsafeAfterFrame = r.Chance(0.25)
	if cfg.UnsafeAfterFrame {
		cfg.Lookalike = true
	}
	doc := gen.Generate(r, cfg)
	if r.Chance(0.12) && gen.Malform(r, doc) {
		// a dump the scanner must reject: the error path, too, must not depend
		// on the delivery schedule
		cov.Probe("malformed-dump")
	}
	if r.Chance(0.03) {
		// a byte order mark glued to the first line of the stream (no structure
		// is claimed for such a stream: purely differential)
		cov.Probe("bom-prefixed-stream")
		b := append([]byte("\xef\xbb\xbf"), gen.Render(doc).Bytes...)
		return runC09Stream(r, nil, &gen.Stream{Bytes: b, Lines: rawLines(b)}, run, seed, tier, cov)
	}
	return runC09Doc(r, doc, run, seed, tier, cov)
}

// rawLines splits literal bytes into lines (no structure known).
func rawLines(b []byte) []gen.Line {
	var out []gen.Line
	st := 0
	for i, c := range b {
		if c == '\n' {
			out = append(out, gen.Line{Start: st, End: i + 1, Class: gen.Junk, Item: -1, Gor: -1, Term: true})
			st = i + 1
		}
	}
	if st < len(b) {
		out = append(out, gen.Line{Start: st, End: len(b), Class: gen.Junk, Item: -1, Gor: -1})
	}
	return out
}

func runC09Doc(r *core.Rng, doc *gen.Doc, run, seed uint64, tier string, cov *Cov) []*Violation {
	return runC09Stream(r, doc, gen.Render(doc), run, seed, tier, cov)
}

func runC09Stream(r *core.Rng, doc *gen.Doc, s *gen.Stream, run, seed uint64, tier string, cov *Cov) []*Violation {
	b := s.Bytes
	nameArgs := r.Chance(0.7)
	ih := core.Hash(b)
	cov.Inputs[ih]++
	base, bt, _ := loopUnder(b, iosim.OneShot(len(b)), nameArgs, nil, false)
	nr := 40
	if tier == "thorough" {
		nr = 80
	}
	scheds := schedulesFor(r, s, tier, 6144, nr)
	var vs []*Violation
	seen := map[string]bool{}
	hasDump := len(s.Dumps) > 0 || doc == nil
	// the same schedules, a sample of them once more behind a bufio.Reader of
	// several sizes (below, at and above the scanner's own buffer size)
	type variant struct {
		sc    iosim.Schedule
		bufio int
	}
	var vars []variant
	for _, sc := range scheds {
		vars = append(vars, variant{sc, 0})
	}
	for i, n := 0, 6; i < n && len(scheds) > 0; i++ {
		vars = append(vars, variant{scheds[r.Intn(len(scheds))], []int{16, 4096, 16384, 16385, 32768, 65536}[i]})
	}
	for _, vr := range vars {
		sc := vr.sc
		c := &Case{Prop: "C09", Run: run, Seed: seed, Mode: "loop", Doc: doc, Sched: sc, NameArgs: nameArgs, Bufio: vr.bufio}
		if doc == nil {
			c.Raw = b
		}
		got, gt, sr := loopUnder(b, sc, nameArgs, cov, false, vr.bufio)
		_ = sr
		if vr.bufio > 0 {
			cov.Probe("behind-bufio.Reader")
		}
		cov.Note(ih, sc, hasDump, map[bool]string{true: fmt.Sprint("bufio", vr.bufio)}[vr.bufio > 0])
		for _, v := range compareLoops("C09", c, b, base, bt, got, gt) {
			if !seen[v.Clause] {
				seen[v.Clause] = true
				vs = append(vs, v)
			}
		}
		if len(vs) >= 3 {
			break
		}
	}
	if len(cov.Samples) < 2 {
		cov.Samples = append(cov.Samples, map[string]any{
			"stream": Clip(b, 400), "bytes": len(b), "dumps": len(s.Dumps), "schedules": len(scheds),
			"example_schedule": scheds[len(scheds)-1].Key(), "calls_in_loop": len(base.Calls),
		})
	}
	return vs
}

func init() {
	register(&Spec{
		ID: "C09", Level: "exploration",
		Run:       RunC09,
		Check:     CheckC09,
		MustReach: []string{"literal-corpus", "malformed-dump", "bom-prefixed-stream", "jumping-clock"},
		Posts:     []func(uint64, string, *Cov) ([]*Violation, map[string]any, error){postCLI("C09")},
		Quick:     600, Thorough: 40000,
		Rule: "one evaluation = the resume loop over one generated stream under one delivery schedule, compared with one-shot delivery of the same bytes; schedules per stream: every single split point (streams <= 6 KiB; sampled around line ends and 16 KiB multiples for longer ones) with both EOF kinds, byte-wise and fixed chunk sizes around 4096/16384, and seeded random schedules with zero-length reads (<= 99 in a row), short reads and boundaries attracted to line ends; distinct_nontrivial = distinct (stream hash, schedule) pairs whose stream contains at least one dump and whose schedule has >= 2 producer steps or a fault",
		Assumptions: []string{
			"the generators (gen.Dump, gen.Race, gen.Junk) bound what 'every input' means",
			"zero-length reads are limited to 99 in a row: 100 is the documented io.ErrNoProgress bound and is not required to be equivalent",
			"Opts: GuessPaths and AnalyzeSources off (no disk access in this property)",
		},
		Real:  []string{"stack.ScanSnapshot", "stack.reader (fill/readSlice/readLine)", "the scanner state machine", "the documented resume protocol (io.MultiReader(suffix, rest))", "internal.process (the command's resume loop; clisim stage: output and error under a schedule vs the same bytes delivered at once)"},
		Stubs: []string{"io.Reader producer (iosim.SimReader)", "io.Writer sink (iosim.SimWriter)"},
	})
}

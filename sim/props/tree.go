package props

import (
	"fmt"
	"os"
	"path/filepath"
	"strings"
	"sync"

	"verifsim/core"
)

// TreeFile is one file of the per-run directory tree (fixed environment).
type TreeFile struct {
	Path    string `json:"path"`
	Content string `json:"content"`
}

// TreeEnv is a per-run directory tree: local GOROOT, GOPATHs, go.mod roots
// (fixed environment of a run, not a fault).
type TreeEnv struct {
	Dir     string     `json:"dir"`
	Files   []TreeFile `json:"files"`
	GOROOT  string     `json:"goroot"`
	GOPATHs []string   `json:"gopaths"`
}

func writeTreeFiles(dir string, files []TreeFile) error {
	if dir == "" {
		return nil
	}
	if !strings.Contains(dir, "verif-c06") && !strings.Contains(dir, "verif-tree") {
		return fmt.Errorf("refusing to manage directory %q", dir)
	}
	os.RemoveAll(dir)
	for _, f := range files {
		if !strings.HasPrefix(f.Path, dir+"/") {
			return fmt.Errorf("tree file %q outside %q", f.Path, dir)
		}
		if err := os.MkdirAll(filepath.Dir(f.Path), 0o755); err != nil {
			return err
		}
		if err := os.WriteFile(f.Path, []byte(f.Content), 0o644); err != nil {
			return err
		}
	}
	return nil
}

// goSrc is a source file in which every line from 3 to 44 lies inside a
// function with parameters, so that source-based argument augmentation really
// rewrites the arguments of a frame that points into it. The signatures cover
// the kinds of parameter the augmentation distinguishes (sized integers,
// floats, bool, string, slice, array, map, chan, func, interface, selector,
// pointer to pointer, unnamed and blank parameters, a variadic tail, pointer
// and value receivers).
var goSrc = func() string {
	var b strings.Builder
	b.WriteString("package p\n\n")
	sigs := []string{
		"func worker(a int, b *int, s string) {",
		"func loop(f float64, p []byte, e error) {",
		"func (t *T) Run(n uint32, m map[string]int, c chan int) {",
		"func (t T) Serve(g float32, ok bool, i8 int8, i16 int16, args ...interface{}) {",
		"func gopark(fn func(), arr [2]int, x io.Reader, i64 int64, _ uint8) {",
		"func park(int32, uint, interface{}, struct{}, **int) {",
	}
	for _, sig := range sigs {
		b.WriteString(sig + "\n")
		for i := 0; i < 5; i++ {
			b.WriteString("\t_ = 0\n")
		}
		b.WriteString("}\n")
	}
	b.WriteString("\ntype T struct{}\n")
	return b.String()
}()

// goSrcRewritten: the same functions on the same lines with other parameter
// types (what a source file looks like after an edit).
var goSrcRewritten = strings.NewReplacer(
	"a int, b *int, s string", "a string, b int, s *int",
	"f float64, p []byte, e error", "f *float64, p string, e int",
	"n uint32, m map[string]int, c chan int", "n string, m *int, c error",
	"g float32, ok bool, i8 int8, i16 int16, args ...interface{}", "g string, ok *bool, i8 float64, i16 []int",
	"fn func(), arr [2]int, x io.Reader, i64 int64, _ uint8", "fn string, arr *int, x int64, i64 string, _ bool",
	"int32, uint, interface{}, struct{}, **int", "string, *int, string, bool",
).Replace(goSrc)

func genTreeEnv(r *core.Rng, dir string) (*TreeEnv, []string) {
	ex := &TreeEnv{Dir: dir, GOROOT: dir + "/goroot"}
	add := func(p, content string) { ex.Files = append(ex.Files, TreeFile{Path: p, Content: content}) }
	var remote []string
	g1, g2 := dir+"/gopath1", dir+"/gopath2"
	ex.GOPATHs = []string{g1, g2}
	if r.Chance(0.5) {
		ex.GOPATHs = []string{g2, g1}
	}
	add(ex.GOROOT+"/src/runtime/proc.go", goSrc)
	remote = append(remote, "/remote/goroot/src/runtime/proc.go")
	if r.Chance(0.3) {
		// dumps of programs built with another Go installation
		remote = append(remote, "/opt/go2/src/runtime/proc.go")
	}
	if r.Chance(0.7) {
		// overlapping GOPATH roots: /r/src/a is itself a GOPATH nested in /r's src
		add(g1+"/src/p/q.go", goSrc)
		add(g2+"/src/m/n.go", goSrc)
		remote = append(remote, "/r/src/a/src/p/q.go", "/r/src/m/n.go")
	} else {
		add(g1+"/src/p/q.go", goSrc)
		remote = append(remote, "/r/src/p/q.go")
	}
	if r.Chance(0.5) {
		// a remote GOPATH whose root is the remote GOROOT (code checked out under GOROOT/src)
		add(g1+"/src/zz/w.go", goSrc)
		remote = append(remote, "/remote/goroot/src/zz/w.go")
	}
	if r.Chance(0.5) {
		// the same package checked out in both local GOPATHs: the first entry of
		// LocalGOPATHs that has the file wins
		add(g1+"/src/dup/d.go", goSrc)
		add(g2+"/src/dup/d.go", goSrc)
		remote = append(remote, "/r3/src/dup/d.go")
	}
	if r.Chance(0.5) {
		add(g2+"/pkg/mod/github.com/x/y@v1.0.0/z.go", goSrc)
		remote = append(remote, "/r2/pkg/mod/github.com/x/y@v1.0.0/z.go")
	}
	if r.Chance(0.7) {
		// nested go.mod roots
		add(dir+"/mod/go.mod", "module example.com/mod\n")
		add(dir+"/mod/y.go", goSrc)
		add(dir+"/mod/sub/go.mod", "module example.com/sub\n")
		add(dir+"/mod/sub/x.go", goSrc)
		remote = append(remote, dir+"/mod/y.go", dir+"/mod/sub/x.go")
		if r.Chance(0.5) {
			add(dir+"/mod/sub/deep/go.mod", "module example.com/deep\n")
			add(dir+"/mod/sub/deep/w.go", goSrc)
			remote = append(remote, dir+"/mod/sub/deep/w.go")
		}
	} else {
		add(dir+"/mod/go.mod", "module example.com/mod\n")
		add(dir+"/mod/y.go", goSrc)
		remote = append(remote, dir+"/mod/y.go")
	}
	if r.Chance(0.4) {
		add(dir+"/run/main.go", "package main\n\nfunc main() {}\n")
		remote = append(remote, dir+"/run/main.go")
	}
	if r.Chance(0.4) {
		// two remote roots that differ only in letter case (two machines, or a
		// case-preserving file system), each found in another local GOPATH
		add(g1+"/src/casea/a.go", goSrc)
		add(g2+"/src/caseb/b.go", goSrc)
		remote = append(remote, "/home/User/go/src/casea/a.go", "/home/user/go/src/caseb/b.go")
	}
	if r.Chance(0.5) {
		// a vendored dependency (also one vendored inside a vendored one)
		add(g2+"/src/ven/vendor/github.com/v/w/x.go", goSrc)
		add(g2+"/src/ven/vendor/github.com/v/w/vendor/example.org/z/z.go", goSrc)
		remote = append(remote, "/r4/src/ven/vendor/github.com/v/w/x.go", "/r4/src/ven/vendor/github.com/v/w/vendor/example.org/z/z.go")
	}
	remote = append(remote, "/nowhere/else/file.go")
	return ex, remote
}

// ---- a static tree for the stream properties ----------------------------------

var (
	staticOnce   sync.Once
	staticGOROOT string
	staticGOPATH string
)

// StaticTree returns a local GOROOT and GOPATH in which the source paths of
// gen.Generate's frames resolve (runtime and net/http in the GOROOT,
// github.com/foo/bar in the GOPATH, github.com/x/y@v1.2.3 in its module
// cache). The content is fixed; the directory is named after it, created on
// first use (files written under a temporary name and renamed) and shared by
// all processes.
func StaticTree() (string, []string) {
	staticOnce.Do(func() {
		base := os.Getenv("VERIF_TMP")
		if base == "" {
			base = os.TempDir()
		}
		dir := filepath.Join(base, "verif-tree-static-"+core.Hash([]byte(goSrc))[:10])
		staticGOROOT, staticGOPATH = dir+"/goroot", dir+"/gopath"
		names := []string{"main.go", "proc.go", "server.go", "asm_amd64.s", "cgo.c", "z_test.go", "sema.go"}
		for _, d := range []string{staticGOROOT + "/src/runtime", staticGOROOT + "/src/net/http", staticGOPATH + "/src/github.com/foo/bar", staticGOPATH + "/pkg/mod/github.com/x/y@v1.2.3"} {
			if err := os.MkdirAll(d, 0o755); err != nil {
				panic(err)
			}
			for _, n := range names {
				p := d + "/" + n
				if _, err := os.Stat(p); err == nil {
					continue
				}
				content := goSrc
				if !strings.HasSuffix(n, ".go") {
					content = "// not Go\n"
				}
				tmp := fmt.Sprintf("%s.%d.tmp", p, os.Getpid())
				if err := os.WriteFile(tmp, []byte(content), 0o644); err != nil {
					panic(err)
				}
				if err := os.Rename(tmp, p); err != nil {
					panic(err)
				}
			}
		}
	})
	return staticGOROOT, []string{staticGOPATH}
}

package props

import (
	"bytes"
	"encoding/json"
	"fmt"
	"os"
	"os/exec"
	"strings"
	"syscall"
	"time"
	"unsafe"

	"verifsim/core"
	"verifsim/gen"
	"verifsim/iosim"
)

// ---- ppdrive: the real pp binary through OS pipes, in lock-step ---------------
//
// Not a simulator: the end-to-end confirmation that what clisim shows for
// process() also holds for Main()'s wiring of stdin/stdout. No timing
// assumption: after writing a chunk the driver waits until (a) the stdin pipe
// is empty (FIONREAD == 0) and then (b) a thread of the child sleeps in
// read(0, …) according to /proc/<pid>/task/*/syscall. (a)-then-(b) means the
// child consumed the chunk, finished processing it and asked for more; what it
// wrote is then in the stdout pipe and is drained without blocking. A watchdog
// turns a hang into an infrastructure error, never into a VIOLATION.

func fionread(fd uintptr) (int, error) {
	var n int32
	_, _, e := syscall.Syscall(syscall.SYS_IOCTL, fd, 0x541B, uintptr(unsafe.Pointer(&n)))
	if e != 0 {
		return 0, e
	}
	return int(n), nil
}

type ppProc struct {
	exited chan struct{}
	code   int
	cmd    *exec.Cmd
	inW    *os.File
	outR   *os.File
	stderr bytes.Buffer
	out    []byte
	// outFile: stdout of the child is this regular file instead of a pipe
	outFile string
}

func ppEnv() []string {
	return []string{"GOTRACEBACK=all", "TERM=dumb", "HOME=/nonexistent", "GOPATH=/nonexistent/gopath", "PATH=/usr/bin:/bin"}
}

func startPP(bin string, args ...string) (*ppProc, error) {
	return startPPTo("", bin, args...)
}

// startPPTo: outFile != "" makes the child's stdout that regular file.
func startPPTo(outFile, bin string, args ...string) (*ppProc, error) {
	inR, inW, err := os.Pipe()
	if err != nil {
		return nil, err
	}
	var outR, outW *os.File
	if outFile != "" {
		if outW, err = os.Create(outFile); err != nil {
			return nil, err
		}
		outR, _ = os.Open(os.DevNull)
	} else if outR, outW, err = os.Pipe(); err != nil {
		return nil, err
	}
	p := &ppProc{inW: inW, outR: outR, outFile: outFile}
	p.cmd = exec.Command(bin, args...)
	p.cmd.Stdin = inR
	p.cmd.Stdout = outW
	p.cmd.Stderr = &p.stderr
	p.cmd.Env = ppEnv()
	if err := p.cmd.Start(); err != nil {
		return nil, err
	}
	inR.Close()
	outW.Close()
	p.exited = make(chan struct{})
	go func() {
		err := p.cmd.Wait()
		if ee, ok := err.(*exec.ExitError); ok {
			p.code = ee.ExitCode()
		} else if err != nil {
			p.code = -1
		}
		close(p.exited)
	}()
	return p, nil
}

// drain reads what is available on stdout without blocking.
func (p *ppProc) drain() error {
	if p.outFile != "" {
		b, err := os.ReadFile(p.outFile)
		p.out = b
		return err
	}
	for {
		n, err := fionread(p.outR.Fd())
		if err != nil {
			return err
		}
		if n == 0 {
			return nil
		}
		buf := make([]byte, n)
		m, err := p.outR.Read(buf)
		p.out = append(p.out, buf[:m]...)
		if err != nil {
			return err
		}
	}
}

// waitBlocked waits until the child has consumed its stdin and sleeps in
// read(0). Returns an error on watchdog timeout or if the child exited.
func (p *ppProc) waitBlocked(watchdog time.Duration) error {
	deadline := time.Now().Add(watchdog)
	pid := p.cmd.Process.Pid
	for {
		select {
		case <-p.exited:
			p.drainAll()
			return fmt.Errorf("child gone: exited with status %d", p.code)
		default:
		}
		if n, err := fionread(p.inW.Fd()); err == nil && n == 0 {
			// (b) some thread in read(0, …)
			ents, err := os.ReadDir(fmt.Sprintf("/proc/%d/task", pid))
			if err != nil {
				return fmt.Errorf("child gone: %v", err)
			}
			for _, e := range ents {
				b, err := os.ReadFile(fmt.Sprintf("/proc/%d/task/%s/syscall", pid, e.Name()))
				if err != nil {
					continue
				}
				f := strings.Fields(string(b))
				if len(f) >= 2 && f[0] == "0" && f[1] == "0x0" {
					// re-check (a): nothing arrived in between (we are the only writer)
					return p.drain()
				}
			}
		}
		if time.Now().After(deadline) {
			return fmt.Errorf("watchdog: child did not block in read(0) within %v", watchdog)
		}
		p.drain()
		time.Sleep(200 * time.Microsecond)
	}
}

// drainAll reads stdout to its end (the child has exited or is exiting).
func (p *ppProc) drainAll() {
	if p.outFile != "" {
		p.out, _ = os.ReadFile(p.outFile)
		return
	}
	var buf [65536]byte
	for {
		n, err := p.outR.Read(buf[:])
		p.out = append(p.out, buf[:n]...)
		if err != nil {
			return
		}
	}
}

func (p *ppProc) finish() (int, error) {
	p.inW.Close()
	done := make(chan struct{})
	go func() { p.drainAll(); close(done) }()
	select {
	case <-p.exited:
		<-done
		p.drainAll()
		p.outR.Close()
		return p.code, nil
	case <-time.After(60 * time.Second):
		p.cmd.Process.Kill()
		return -1, fmt.Errorf("watchdog: child did not exit within 60s after stdin was closed")
	}
}

func ppAlone(bin string, b []byte, flags ...string) ([]byte, error) {
	cmd := exec.Command(bin, flags...)
	cmd.Stdin = bytes.NewReader(b)
	cmd.Env = ppEnv()
	return cmd.Output()
}

type ppInfra struct{ err error }

// CheckPPDrive executes one case on the real binary. Infrastructure trouble is
// reported through a panic(ppInfra).
func CheckPPDrive(prop string, c *Case, cov *Cov) []*Violation {
	bin := os.Getenv("VERIF_PP_BIN")
	if bin == "" {
		panic(ppInfra{fmt.Errorf("VERIF_PP_BIN not set (run through /verif/run.sh)")})
	}
	s := c.Stream()
	b := s.Bytes
	var vs []*Violation
	seen := map[string]bool{}
	add := func(clause, known, msg string) {
		if seen[clause] {
			return
		}
		seen[clause] = true
		vs = append(vs, &Violation{Prop: prop, Clause: prop + "." + clause, Msg: "[pp binary over pipes] " + msg, Case: c, Known: known})
	}
	// flags that must not change anything but the rendering itself
	var flags []string
	if len(c.Extra) > 0 {
		json.Unmarshal(c.Extra, &flags)
	}
	// pseudo-flags (not passed to pp): "@stdout-file" = stdout is a regular
	// file; "@signals" = SIGINT and SIGQUIT are sent to pp at blocking points
	// (the command ignores them while it filters a pipe: the producer is the
	// one to die); "@pause" = the producer stays quiet for 2.6 s of real time
	// once, right after the first dump was delivered
	outFile, signals, pause := "", false, false
	{
		var real []string
		for _, f := range flags {
			switch f {
			case "@stdout-file":
				outFile = fmt.Sprintf("%s/ppdrive-out-%d-%d-%d.txt", os.TempDir(), os.Getpid(), c.Seed, c.Run)
			case "@signals":
				signals = true
			case "@pause":
				pause = true
			default:
				real = append(real, f)
			}
		}
		flags = real
	}
	if outFile != "" {
		defer os.Remove(outFile)
	}
	htmlMode := false
	for i, f := range flags {
		if f == "-html" && i+1 < len(flags) {
			htmlMode = true
			defer os.Remove(flags[i+1])
		}
	}
	rend := make([][]byte, len(s.Dumps))
	for i, d := range s.Dumps {
		if htmlMode {
			rend[i] = []byte{} // the rendering goes to the HTML file, the text around it to stdout
			continue
		}
		o, err := ppAlone(bin, gen.Render(gen.SubDoc(c.Doc, d.Item)).Bytes, flags...)
		if err != nil {
			add("pp-exit", "", fmt.Sprintf("pp on dump #%d alone failed: %v", i, err))
			return vs
		}
		rend[i] = o
	}
	pieces, del := expectedCLI(s, rend)
	want := joinPieces(pieces)
	hasLook := false
	for _, l := range s.Lines {
		if l.Class == gen.Junk && isRaceLook(b[l.Start:l.End]) {
			hasLook = true
		}
	}
	p, err := startPPTo(outFile, bin, flags...)
	if err != nil {
		panic(ppInfra{err})
	}
	nsig := 0
	paused := false
	defer func() {
		select {
		case <-p.exited:
		default:
			p.cmd.Process.Kill()
			<-p.exited
		}
		p.inW.Close()
		p.outR.Close()
	}()
	sched := c.Sched.FitTo(len(b))
	off := 0
	for _, st := range sched.Steps {
		if st.Op != "w" {
			continue
		}
		if _, err := p.inW.Write(b[off : off+st.N]); err != nil {
			if !(hasLook && p.code != 0) {
				add("pp-exit", "", fmt.Sprintf("pp closed its stdin after %d of %d bytes: %v; stderr: %s", off, len(b), err, clipS(p.stderr.String(), 300)))
			}
			return vs
		}
		off += st.N
		if err := p.waitBlocked(60 * time.Second); err != nil {
			if strings.HasPrefix(err.Error(), "child gone") {
				if !(hasLook && p.code != 0) {
					add("pp-exit", "", fmt.Sprintf("pp exited (status %d) while its stdin was still open, after %d of %d bytes, with %d bytes of output; stderr: %s", p.code, off, len(b), len(p.out), clipS(p.stderr.String(), 300)))
				}
				return vs
			}
			panic(ppInfra{err})
		}
		if cov != nil {
			cov.Probe("pp-block-points")
		}
		if signals && nsig < 3 && off > 0 {
			// pp sleeps in read(0): interrupt it; it must go back to reading
			sig := []syscall.Signal{syscall.SIGINT, syscall.SIGINT, syscall.SIGQUIT}[nsig]
			nsig++
			if err := p.cmd.Process.Signal(sig); err == nil {
				time.Sleep(3 * time.Millisecond)
				if err := p.waitBlocked(60 * time.Second); err != nil {
					if strings.HasPrefix(err.Error(), "child gone") {
						add("pp-exit", "", fmt.Sprintf("pp exited (status %d) after signal %v #%d while its stdin was still open (%d of %d bytes delivered); stderr: %s", p.code, sig, nsig, off, len(b), clipS(p.stderr.String(), 300)))
						return vs
					}
					panic(ppInfra{err})
				}
				if cov != nil {
					cov.Probe("pp-signal-while-blocked")
				}
			}
		}
		if pause && !paused && len(s.Dumps) > 0 {
			if t := terminatorLine(s, &s.Dumps[0]); t >= 0 && s.Lines[t].End <= off && off < len(b) {
				paused = true
				time.Sleep(2600 * time.Millisecond)
				if cov != nil {
					cov.Probe("pp-quiet-producer-2.6s")
				}
			}
		}
		if prop != "C11" {
			continue
		}
		if exp, missing := expectedSoFar(s, off, rend); !bytes.HasPrefix(p.out, exp) {
			li := missing(FirstDiff(p.out, exp))
			add("withheld-line", "", fmt.Sprintf("pp sleeps in read(0) after %d bytes; the pass-through line / rendering at line %d (%s) was due but is not readable from its stdout (%d bytes so far, %d expected)", off, li, Clip(s.Text(li), 60), len(p.out), len(exp)))
		}
		pos := 0
		for i := range s.Dumps {
			t := terminatorLine(s, &s.Dumps[i])
			if t < 0 || !s.Lines[t].Term || s.Lines[t].End > off {
				break
			}
			j := bytes.Index(p.out[pos:], rend[i])
			if j < 0 {
				add("snapshot-late", "", fmt.Sprintf("pp sleeps in read(0) after %d bytes; the line that ends dump #%d was delivered completely but its rendering is not readable from stdout", off, i))
				break
			}
			pos += j + len(rend[i])
		}
		if !hasLook && !bytes.HasPrefix(want, p.out) {
			add("pp-prefix", "", fmt.Sprintf("output so far (%d bytes) is not a prefix of the expected final output", len(p.out)))
		}
	}
	code, err := p.finish()
	if err != nil {
		panic(ppInfra{err})
	}
	if cov != nil {
		cov.Evaluations++
		cov.Probe("pp-executions")
	}
	if code != 0 {
		if !hasLook {
			add("pp-exit", "", fmt.Sprintf("pp exited %d on a stream of well-formed dumps and junk; stderr: %s", code, clipS(p.stderr.String(), 300)))
		}
		return vs
	}
	if prop == "C11" {
		return vs
	}
	// the same stream given as a file argument instead of stdin
	if f, err := os.CreateTemp("", "ppdrive-*.txt"); err == nil {
		f.Write(b)
		f.Close()
		fo, ferr := ppAlone(bin, nil, append(append([]string{}, flags...), f.Name())...)
		os.Remove(f.Name())
		if ferr == nil && !matchPieces(pieces, del, fo, false) && !matchPieces(pieces, del, fo, true) {
			d := FirstDiff(fo, want)
			add("pp-output", "", fmt.Sprintf("pp <file> exited 0 but its output is not the file with each dump replaced by its rendering: first difference at output byte %d: got %s, want %s", d, Clip(fo[max0(min(d, len(fo))-30):], 120), Clip(want[max0(min(d, len(want))-30):], 120)))
		} else if ferr != nil && !hasLook {
			add("pp-exit", "", fmt.Sprintf("pp <file> failed on a stream of well-formed dumps and junk: %v", ferr))
		}
		if cov != nil {
			cov.Probe("pp-file-argument")
		}
	}
	if !matchPieces(pieces, del, p.out, false) {
		known := ""
		if matchPieces(pieces, del, p.out, true) {
			known = "KF-1"
		}
		d := FirstDiff(p.out, want)
		add("pp-output", known, fmt.Sprintf("pp exited 0 but its output is not its input with each dump replaced by its rendering: first difference at output byte %d: got %s, want %s", d, Clip(p.out[max0(min(d, len(p.out))-30):], 120), Clip(want[max0(min(d, len(want))-30):], 120)))
	}
	return vs
}

func postPPDrive(prop string) func(seed uint64, tier string, cov *Cov) ([]*Violation, map[string]any, error) {
	return func(seed uint64, tier string, cov *Cov) (vs []*Violation, info map[string]any, err error) {
		if os.Getenv("VERIF_PP_BIN") == "" {
			return nil, map[string]any{"ppdrive_stage": "skipped: VERIF_PP_BIN not set"}, nil
		}
		defer func() {
			if p := recover(); p != nil {
				if pi, ok := p.(ppInfra); ok {
					err = fmt.Errorf("ppdrive: %v", pi.err)
					return
				}
				panic(p)
			}
		}()
		runs := 90
		if tier == "thorough" {
			runs = 4000
		}
		t0 := time.Now()
		seen := map[string]bool{}
		execs := 0
		for i := 0; i < runs; i++ {
			r := core.NewRng(core.Mix(seed, prop+"/ppdrive", uint64(i)))
			cfg := gen.DefaultCfg(r)
			cfg.VeryLong = false
			cfg.ExactRaceSep = prop == "C02" && r.Chance(0.1)
			doc := gen.Generate(r, cfg)
			if r.Chance(0.4) {
				// what coloured loggers, progress bars and terminal-aware tools write:
				// SGR and non-SGR control sequences, an OSC title, a sequence cut at
				// the end of the line. Inserted in front of the stream and after
				// junk lines (where any text may stand).
				esc := []string{"\x1b[K erase to end of line\n", "progress \x1b[2K\x1b[1G 50% done\n", "\x1b]0;window title\x07 after the title\n", "\x1b[?25l cursor hidden\n", "\x1b[31mred\x1b[0m and \x1b[1;32mgreen\x1b[m\n", "sequence cut at the end \x1b[\n", "\x1b(B charset\n"}
				// positions: -1 = in front of the stream; i = after junk item i
				at := []int{-1}
				for i, it := range doc.Items {
					if it.Kind == "junk" && strings.TrimRight(it.Text, "\r\n") != "" && strings.HasSuffix(it.Text, "\n") {
						at = append(at, i)
					}
				}
				for k, n := 0, r.Range(1, 3); k < n; k++ {
					pos := at[r.Intn(len(at))] + 1
					it := gen.Item{Kind: "junk", Text: esc[r.Intn(len(esc))]}
					doc.Items = append(doc.Items[:pos:pos], append([]gen.Item{it}, doc.Items[pos:]...)...)
					for j := range at {
						if at[j] >= pos {
							at[j]++
						}
					}
				}
				cov.Probe("pp-input-with-control-sequences")
			}
			s := gen.Render(doc)
			scheds := loopSchedules(r, s, 1, true)
			for _, sc := range []iosim.Schedule{scheds[len(scheds)-1], scheds[len(scheds)-2]} {
				if len(sc.Steps) > 400 {
					continue
				}
				c := &Case{Prop: prop, Run: uint64(i), Seed: seed, Mode: "ppdrive", Doc: doc, Sched: sc, NameArgs: true}
				if fl := [][]string{nil, nil, {"-f", "ZZZNOMATCH"}, {"-m", "."}, {"-aggressive"}, {"-full-path"}, {"-parse=false"}, {"-html", "HTMLFILE"}, {"-force-color"}, {"-force-color"}}[r.Intn(10)]; fl != nil {
					if fl[0] == "-html" {
						fl = []string{"-html", fmt.Sprintf("%s/ppdrive-%s-%d-%d.html", os.TempDir(), prop, seed, i)}
					}
					c.Extra, _ = json.Marshal(fl)
				}
				// environment of the process: stdout a regular file, signals, a quiet producer
				switch {
				case i%6 == 1:
					var fl []string
					json.Unmarshal(c.Extra, &fl)
					if len(fl) == 0 || fl[0] != "-html" {
						c.Extra, _ = json.Marshal(append(fl, "@stdout-file"))
						cov.Probe("pp-stdout-regular-file")
					}
				case i%6 == 3:
					var fl []string
					json.Unmarshal(c.Extra, &fl)
					c.Extra, _ = json.Marshal(append(fl, "@signals"))
				case i%45 == 5:
					var fl []string
					json.Unmarshal(c.Extra, &fl)
					c.Extra, _ = json.Marshal(append(fl, "@pause"))
				}
				execs++
				for _, v := range CheckPPDrive(prop, c, cov) {
					if !seen[v.Clause+v.Known] {
						seen[v.Clause+v.Known] = true
						vs = append(vs, v)
					}
				}
				if prop == "C11" && i%3 == 0 && !cfg.ExactRaceSep {
					fc := *c
					fc.Mode = "ppfifo"
					fc.Extra = nil
					for _, v := range CheckPPFifo(&fc, cov) {
						if !seen[v.Clause+"fifo"] {
							seen[v.Clause+"fifo"] = true
							vs = append(vs, v)
						}
					}
				}
			}
		}
		return vs, map[string]any{"ppdrive_stage": map[string]any{"what": "the real pp binary (built from the current tree) driven through OS pipes in lock-step (FIONREAD==0 then a thread in read(0) per /proc); not simulated, no timing assumption", "executions": execs, "wall_s": time.Since(t0).Seconds()}}, nil
	}
}

func init() {
	for _, p := range []string{"C02", "C11"} {
		p := p
		extraModes[p+"/ppdrive"] = func(c *Case, cov *Cov) []*Violation { return CheckPPDrive(p, c, cov) }
	}
	extraModes["C11/ppfifo"] = CheckPPFifo
}

// ---- pp <fifo>: the file argument is a live pipe -----------------------------

// waitIdle waits until the child has consumed everything written to fd and
// every one of its threads sleeps in a wait (futex, epoll, nanosleep, or a
// read), twice in a row with no new output in between. Go opens a FIFO
// non-blocking and waits in epoll, so "a thread in read()" does not apply here.
func (p *ppProc) waitIdle(fd uintptr, watchdog time.Duration) error {
	deadline := time.Now().Add(watchdog)
	pid := p.cmd.Process.Pid
	idleNr := map[string]bool{"202": true, "232": true, "281": true, "35": true, "230": true, "0": true, "7": true, "271": true, "23": true, "270": true, "128": true, "130": true, "186": true}
	stable := 0
	lastOut := -1
	for {
		select {
		case <-p.exited:
			p.drainAll()
			return fmt.Errorf("child gone: exited with status %d", p.code)
		default:
		}
		idle := false
		if n, err := fionread(fd); err == nil && n == 0 {
			idle = true
			ents, err := os.ReadDir(fmt.Sprintf("/proc/%d/task", pid))
			if err != nil {
				return fmt.Errorf("child gone: %v", err)
			}
			for _, e := range ents {
				b, err := os.ReadFile(fmt.Sprintf("/proc/%d/task/%s/syscall", pid, e.Name()))
				if err != nil {
					continue
				}
				f := strings.Fields(string(b))
				if len(f) == 0 || !idleNr[f[0]] {
					idle = false
					break
				}
			}
		}
		p.drain()
		if idle && len(p.out) == lastOut {
			stable++
			if stable >= 3 {
				return nil
			}
		} else {
			stable = 0
		}
		lastOut = len(p.out)
		if time.Now().After(deadline) {
			return fmt.Errorf("watchdog: child did not become idle within %v", watchdog)
		}
		time.Sleep(300 * time.Microsecond)
	}
}

// CheckPPFifo drives `pp <fifo>` in lock-step (C11 at the command level when
// the input is a named pipe given as the file argument).
func CheckPPFifo(c *Case, cov *Cov) []*Violation {
	bin := os.Getenv("VERIF_PP_BIN")
	if bin == "" {
		panic(ppInfra{fmt.Errorf("VERIF_PP_BIN not set (run through /verif/run.sh)")})
	}
	s := c.Stream()
	b := s.Bytes
	var vs []*Violation
	add := func(clause, msg string) {
		if len(vs) == 0 {
			vs = append(vs, &Violation{Prop: "C11", Clause: "C11." + clause, Msg: "[pp <fifo> over a named pipe] " + msg, Case: c})
		}
	}
	rend := make([][]byte, len(s.Dumps))
	for i, d := range s.Dumps {
		o, err := ppAlone(bin, gen.Render(gen.SubDoc(c.Doc, d.Item)).Bytes)
		if err != nil {
			return nil
		}
		rend[i] = o
	}
	dir, err := os.MkdirTemp("", "ppfifo")
	if err != nil {
		panic(ppInfra{err})
	}
	defer os.RemoveAll(dir)
	fifo := dir + "/in.fifo"
	if err := syscall.Mkfifo(fifo, 0o600); err != nil {
		panic(ppInfra{err})
	}
	// O_RDWR: does not block waiting for the reader; we only ever write
	wf, err := os.OpenFile(fifo, os.O_RDWR, 0)
	if err != nil {
		panic(ppInfra{err})
	}
	defer wf.Close()
	p, err := startPP(bin, fifo)
	if err != nil {
		panic(ppInfra{err})
	}
	p.inW.Close() // stdin is not used
	defer func() {
		select {
		case <-p.exited:
		default:
			p.cmd.Process.Kill()
			<-p.exited
		}
		p.outR.Close()
	}()
	// wait until the child has opened the pipe (closing our end before that
	// would leave it waiting for a writer forever)
	opened := false
	for dl := time.Now().Add(30 * time.Second); !opened && time.Now().Before(dl); {
		select {
		case <-p.exited:
			return vs
		default:
		}
		ents, _ := os.ReadDir(fmt.Sprintf("/proc/%d/fd", p.cmd.Process.Pid))
		for _, e := range ents {
			if l, err := os.Readlink(fmt.Sprintf("/proc/%d/fd/%s", p.cmd.Process.Pid, e.Name())); err == nil && l == fifo {
				opened = true
			}
		}
		if !opened {
			time.Sleep(200 * time.Microsecond)
		}
	}
	if !opened {
		panic(ppInfra{fmt.Errorf("watchdog: pp did not open the named pipe within 30s")})
	}
	sched := c.Sched.FitTo(len(b))
	off := 0
	for _, st := range sched.Steps {
		if st.Op != "w" {
			continue
		}
		if _, err := wf.Write(b[off : off+st.N]); err != nil {
			return vs
		}
		off += st.N
		if err := p.waitIdle(wf.Fd(), 60*time.Second); err != nil {
			if strings.HasPrefix(err.Error(), "child gone") {
				return vs // exit codes are C02's business
			}
			panic(ppInfra{err})
		}
		if cov != nil {
			cov.Probe("pp-fifo-block-points")
		}
		if exp, missing := expectedSoFar(s, off, rend); !bytes.HasPrefix(p.out, exp) {
			li := missing(FirstDiff(p.out, exp))
			add("withheld-line", fmt.Sprintf("pp is idle after %d bytes were written to the named pipe; line %d (%s) was due but is not readable from its stdout (%d bytes so far, %d expected)", off, li, Clip(s.Text(li), 60), len(p.out), len(exp)))
			break
		}
	}
	wf.Close()
	done := make(chan struct{})
	go func() { p.drainAll(); close(done) }()
	select {
	case <-p.exited:
		<-done
	case <-time.After(60 * time.Second):
		panic(ppInfra{fmt.Errorf("watchdog: pp <fifo> did not exit within 60s after the pipe was closed")})
	}
	if cov != nil {
		cov.Evaluations++
		cov.Probe("pp-fifo-executions")
	}
	return vs
}

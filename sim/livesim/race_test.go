package livesim

import (
	"bytes"
	"fmt"
	"net/http/httptest"
	"os"
	"strconv"
	"sync"
	"testing"
	"time"

	"github.com/maruel/panicparse/v2/stack"
	"github.com/maruel/panicparse/v2/stack/webstack"

	"verifsim/core"
)

// TestFreeRunning is the free-running stage: NOT deterministic simulation.
// Real goroutines, real parallelism, a -race build; goroutines also block in
// ways a bubble cannot make durable (mutex, pipe read, real sleep). Only
// schedule-independent clauses are evaluated: the dump parses, the count
// matches the harness's own header count of the same bytes, status codes,
// page completeness, and the race detector stays silent.
func TestFreeRunning(t *testing.T) {
	if os.Getenv("LIVESIM_MODE") != "race" {
		t.Skip()
	}
	seed, _ := strconv.ParseUint(os.Getenv("LIVESIM_SEED"), 10, 64)
	rounds := envInt("LIVESIM_ROUNDS", 3)
	for round := 0; round < rounds; round++ {
		r := core.NewRng(core.Mix(seed, "C20/free", uint64(round)))
		stop := make(chan struct{})
		var churn sync.WaitGroup
		var mu sync.Mutex
		mu.Lock()
		pr, pw, _ := os.Pipe()
		// blocked population
		for i := 0; i < 20; i++ {
			churn.Add(1)
			k := i % 5
			go func() {
				defer churn.Done()
				switch k {
				case 0:
					mu.Lock()
					mu.Unlock()
				case 1:
					var b [1]byte
					pr.Read(b[:])
				case 2:
					<-stop
				case 3:
					select {
					case <-stop:
					case <-time.After(time.Hour):
					}
				case 4:
					for {
						select {
						case <-stop:
							return
						default:
							time.Sleep(time.Millisecond)
						}
					}
				}
			}()
		}
		// churn: goroutines being created and exiting all the time
		for i := 0; i < 4; i++ {
			churn.Add(1)
			go func() {
				defer churn.Done()
				for {
					select {
					case <-stop:
						return
					default:
					}
					var wg sync.WaitGroup
					for j := 0; j < 8; j++ {
						wg.Add(1)
						go func() { defer wg.Done(); rec(j, &entry{kind: "none"}) }()
					}
					wg.Wait()
				}
			}()
		}
		var clients sync.WaitGroup
		errs := make(chan string, 64)
		for cl := 0; cl < 8; cl++ {
			clients.Add(1)
			cr := core.NewRng(r.Uint64())
			go func() {
				defer clients.Done()
				for n := 0; n < 6; n++ {
					if cr.Chance(0.4) {
						dump := fullStack()
						var pre bytes.Buffer
						s, suffix, err := stack.ScanSnapshot(bytes.NewReader(dump), &pre, &stack.Opts{NameArguments: true})
						if (err != nil && err.Error() != "EOF") || len(suffix) != 0 || pre.Len() != 0 || s == nil {
							errs <- fmt.Sprintf("C20.parse-error: err=%v suffix=%q passthrough=%q", err, clip(string(suffix), 200), clip(pre.String(), 200))
							continue
						}
						if hs := headers(dump); len(hs) != len(s.Goroutines) {
							errs <- fmt.Sprintf("C20.count: %d headers, %d goroutines", len(hs), len(s.Goroutines))
						}
						continue
					}
					m, q, _ := genQuery(cr)
					rec := httptest.NewRecorder()
					webstack.SnapshotHandler(rec, httptest.NewRequest(m, "/debug?"+q, nil))
					c := newChecker()
					c.checkResponseReg(m, q, rec.Code, rec.Header().Get("Content-Type"), rec.Body.String(), queryValid(m, q), -1, false, -1)
					for _, f := range c.findings {
						errs <- f.Clause + ": " + f.Msg
					}
				}
			}()
		}
		cdone := make(chan struct{})
		go func() { clients.Wait(); close(cdone) }()
		select {
		case <-cdone:
		case <-time.After(90 * time.Second):
			// 8 clients x 6 requests take a few seconds; do not let the churn run on
			t.Fatalf("round %d: C20.no-answer: the requests did not complete within 90 s", round)
		}
		close(stop)
		mu.Unlock()
		pw.Write([]byte("xxxxxxxxxxxxxxxxxxxxxxxx"))
		churn.Wait()
		pr.Close()
		pw.Close()
		close(errs)
		for e := range errs {
			t.Errorf("round %d: %s", round, e)
		}
	}
}

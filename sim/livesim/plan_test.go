// Package livesim: the Go runtime as the system under simulation (C20).
//
// Inside a testing/synctest bubble a seeded churn plan creates, blocks and
// releases goroutines; dumps are taken only at quiescent points
// (synctest.Wait), where the state of every bubble goroutine is exactly known
// from the plan's registry.
package livesim

import (
	"bytes"
	"fmt"
	"net/http"
	"net/http/httptest"
	"net/url"
	"regexp"
	"runtime"
	"strconv"
	"strings"
	"sync"
	"time"

	"github.com/maruel/panicparse/v2/stack"

	"verifsim/core"
)

// Step is one step of a churn plan.
type Step struct {
	Op      string `json:"op"` // spawn | release | advance | snapshot | request | startreq | resumereq | truncated
	Kind    string `json:"kind,omitempty"`
	Depth   int    `json:"depth,omitempty"`
	Locked  bool   `json:"locked,omitempty"`
	Creator int    `json:"creator,omitempty"`
	Minutes int    `json:"minutes,omitempty"` // sleep duration / clock advance
	Target  int    `json:"target,omitempty"`  // release: registry index; resumereq: request index
	Method  string `json:"method,omitempty"`
	Query   string `json:"query,omitempty"`
	Park    int    `json:"park,omitempty"` // startreq: park after this many Writes
	AtStack bool   `json:"park_at_stack,omitempty"` // startreq: park right before the handler captures its dump
	Hop     int    `json:"hop,omitempty"`           // spawn: 1 = through a generic function, 2 = through a closure inside a method
	Via     bool   `json:"via_helper,omitempty"`    // spawn: the go statement is executed by a short-lived helper goroutine (another parent id)
	FailAt  int    `json:"fail_at_write,omitempty"` // failreq: the client hangs up, every Write from this one on fails
	Gzip    bool   `json:"accept_gzip,omitempty"`   // request: carries Accept-Encoding: gzip
	Full    bool   `json:"full_opts,omitempty"`
	// Hdr: the request carries a header that a page-serving helper might act on
	// (range / conditional requests); the handler's contract does not mention
	// any, so the answer must be the same full page.
	Hdr string `json:"header,omitempty"`
	// ViaForm: the parameters are not in the URL; a wrapper put them into
	// req.Form (the usage the package documentation shows).
	ViaForm bool `json:"via_form,omitempty"`
}

var reqHeaders = map[string][2]string{
	"range":             {"Range", "bytes=0-99"},
	"range-beyond":      {"Range", "bytes=999999999-"},
	"if-match":          {"If-Match", `"x"`},
	"if-none-match":     {"If-None-Match", "*"},
	"if-modified-since": {"If-Modified-Since", "Mon, 02 Jan 2006 15:04:05 GMT"},
	"if-range":          {"If-Range", `"x"`},
	"accept-json":       {"Accept", "application/json"},
	"head-override":     {"X-HTTP-Method-Override", "HEAD"},
}

var reqHeaderKinds = []string{"range", "range-beyond", "if-match", "if-none-match", "if-modified-since", "if-range", "accept-json", "head-override"}

// mkReq builds the request of a step.
func mkReq(st Step) *http.Request {
	var req *http.Request
	if vals, err := url.ParseQuery(st.Query); st.ViaForm && err == nil {
		req = httptest.NewRequest(st.Method, "/debug", nil)
		_ = req.ParseForm()
		for k, v := range vals {
			req.Form[k] = v
		}
	} else {
		req = httptest.NewRequest(st.Method, "/debug?"+st.Query, nil)
	}
	if h, ok := reqHeaders[st.Hdr]; ok {
		req.Header.Set(h[0], h[1])
	}
	if st.Gzip {
		req.Header.Set("Accept-Encoding", "gzip")
	}
	return req
}

// Plan is one simulated run.
type Plan struct {
	Seed  uint64 `json:"seed"`
	Run   uint64 `json:"run"`
	Steps []Step `json:"steps"`
	// BurnIDs goroutines are created and finished before the plan starts, so
	// that the goroutine ids of the plan (and the "in goroutine N" of their
	// creators) have more digits.
	BurnIDs int `json:"burn_ids,omitempty"`
	// Traceback is the GOTRACEBACK setting of the process that executes the
	// plan ("system" adds gp=/m= annotations and runtime goroutines to the dump).
	Traceback string `json:"gotraceback,omitempty"`
}

var kinds = []string{"recv", "send", "select2", "selecttimer", "sleep", "wg", "cond", "nilrecv", "nilsend", "selectnone"}

var wantState = map[string]string{
	"recv": "chan receive", "send": "chan send", "select2": "select", "selecttimer": "select", "sleep": "sleep",
	"wg": "sync.WaitGroup.Wait", "cond": "sync.Cond.Wait", "nilrecv": "chan receive (nil chan)", "nilsend": "chan send (nil chan)", "selectnone": "select (no cases)",
}

var validSim = []string{"", "exactflags", "exactlines", "anypointer", "anyvalue"}
var badSim = []string{"bogus", "ANYPOINTER", "alike", "1", "any value", "exact"}
var validAug = []string{"", "0", "1"}
var badAug = []string{"2", "-1", "x", "1.0", "true", "false", "t", "T", "yes", "on"}
var validMem = []string{"", "1", "500000", "1048576", "2097152", "67108864", "3000000"}
var badMem = []string{"abc", "1e6", "99999999999999999999999", "0x10"}

func genQuery(r *core.Rng) (method, query string, valid bool) {
	valid = true
	method = "GET"
	if r.Chance(0.12) {
		method = r.Pick("POST", "PUT", "HEAD", "DELETE", "PATCH")
		valid = false
	}
	var q []string
	pick := func(name string, good, bad []string) {
		if r.Chance(0.12) {
			q = append(q, name+"="+strings.ReplaceAll(bad[r.Intn(len(bad))], " ", "+"))
			valid = false
			return
		}
		if v := good[r.Intn(len(good))]; v != "" {
			q = append(q, name+"="+v)
		}
	}
	pick("similarity", validSim, badSim)
	pick("augment", validAug, badAug)
	pick("maxmem", validMem, badMem)
	if r.Chance(0.15) {
		// parameters the handler does not know, and known ones left empty (= default)
		q = append(q, r.Pick("foo=bar", "debug=2", "augment=", "similarity=", "maxmem=", "x"))
	}
	return method, strings.Join(q, "&"), valid
}

// GenPlan draws a churn plan.
func GenPlan(r *core.Rng, seed, run uint64) *Plan {
	p := &Plan{Seed: seed, Run: run}
	if r.Chance(0.3) {
		p.BurnIDs = []int{300, 1200, 12000, 70000}[r.Intn(4)]
	}
	if r.Chance(0.15) {
		p.Traceback = "system"
	}
	if r.Chance(0.06) {
		// "many requests" flavour: a long series of requests against one small
		// population (state kept from one request to the next shows up here)
		for i, k := 0, r.Range(2, 8); i < k; i++ {
			p.Steps = append(p.Steps, Step{Op: "spawn", Kind: kinds[r.Intn(7)], Creator: r.Intn(3)})
		}
		for i, k := 0, r.Range(12, 40); i < k; i++ {
			m, q, _ := genQuery(r)
			if r.Chance(0.3) {
				// bias towards rejected requests
				q = "similarity=" + strings.ReplaceAll(badSim[r.Intn(len(badSim))], " ", "+")
				m = "GET"
			}
			p.Steps = append(p.Steps, Step{Op: "request", Method: m, Query: q})
		}
		return p
	}
	if r.Chance(0.08) {
		// "overlap" flavour: a request is held right before it captures its dump,
		// the population grows, a second request starts, the population grows
		// again, then both proceed: each must account for what existed when IT
		// captured
		for i, k := 0, r.Range(1, 4); i < k; i++ {
			p.Steps = append(p.Steps, Step{Op: "spawn", Kind: kinds[r.Intn(7)], Creator: r.Intn(4)})
		}
		_, q1, _ := genQuery(r)
		_, q2, _ := genQuery(r)
		p.Steps = append(p.Steps, Step{Op: "startreq", Method: "GET", Query: q1, AtStack: true})
		for i, k := 0, r.Range(3, 6); i < k; i++ {
			p.Steps = append(p.Steps, Step{Op: "spawn", Kind: kinds[r.Intn(7)], Creator: r.Intn(4)})
		}
		p.Steps = append(p.Steps, Step{Op: "startreq", Method: "GET", Query: q2, Park: r.Range(1, 4)})
		for i, k := 0, r.Range(4, 7); i < k; i++ {
			p.Steps = append(p.Steps, Step{Op: "spawn", Kind: kinds[r.Intn(7)], Creator: r.Intn(4)})
		}
		p.Steps = append(p.Steps, Step{Op: "resumereq", Target: 0}, Step{Op: "resumereq", Target: 1}, Step{Op: "snapshot"})
		return p
	}
	if r.Chance(0.012) {
		// "huge" flavour: a dump of more than 8 MiB (well below the default limit
		// of 64 MiB): the capture has to double its buffer four times and more
		n := r.Range(1100, 1500)
		for i := 0; i < n; i++ {
			p.Steps = append(p.Steps, Step{Op: "spawn", Kind: []string{"recv", "wg", "cond", "select2"}[r.Intn(4)], Depth: r.Range(75, 95), Creator: r.Intn(3)})
		}
		for _, q := range []string{"maxmem=67108864", []string{"", "maxmem=33554432&augment=0", "similarity=exactlines"}[r.Intn(3)]} {
			p.Steps = append(p.Steps, Step{Op: "request", Method: "GET", Query: q})
		}
		return p
	}
	if r.Chance(0.04) {
		// "big" flavour: a dump between 1 and 2 MiB, so that the handler's
		// grow-and-retry capture has to reach its last doubling
		n := r.Range(120, 200)
		for i := 0; i < n; i++ {
			p.Steps = append(p.Steps, Step{Op: "spawn", Kind: []string{"recv", "wg", "cond", "select2"}[r.Intn(4)], Depth: r.Range(60, 95), Creator: r.Intn(3)})
		}
		for i, k := 0, r.Range(2, 4); i < k; i++ {
			// powers of two and values in between (the last growth step has to be
			// clamped to the limit, not skipped)
			q := "maxmem=" + []string{"2097152", "4194304", "67108864", "1", "1048576", "2000000", "1900000", "3000000", "2500000", "6000000"}[r.Intn(10)]
			if r.Chance(0.5) {
				q += "&augment=0"
			}
			if r.Chance(0.5) {
				q += "&similarity=" + validSim[1+r.Intn(4)]
			}
			p.Steps = append(p.Steps, Step{Op: "request", Method: "GET", Query: q})
		}
		p.Steps = append(p.Steps, Step{Op: "snapshot"})
		return p
	}
	n := r.Range(4, 40)
	live := 0
	spawned := 0
	leaks := 0
	parked := 0
	maxLive := []int{6, 20, 60, 300}[r.Intn(4)]
	for i := 0; i < n; i++ {
		switch k := r.Intn(20); {
		case k < 9 && live < maxLive:
			burst := 1
			if r.Chance(0.2) {
				burst = r.Range(2, 30)
			}
			for b := 0; b < burst && live < maxLive; b++ {
				s := Step{Op: "spawn", Kind: kinds[r.Intn(len(kinds))], Creator: r.Intn(4), Locked: r.Chance(0.1), Hop: []int{0, 0, 0, 1, 2}[r.Intn(5)], Via: r.Chance(0.3)}
				if r.Chance(0.15) {
					s.Hop = 3 + r.Intn(12)
				}
				if (s.Kind == "nilrecv" || s.Kind == "nilsend" || s.Kind == "selectnone") && leaks >= 2 {
					s.Kind = "recv"
				}
				if s.Kind == "nilrecv" || s.Kind == "nilsend" || s.Kind == "selectnone" {
					leaks++
				}
				switch r.Intn(8) {
				case 0:
					s.Depth = r.Range(110, 150) // the runtime elides frames
				case 1, 2:
					s.Depth = r.Range(1, 80)
				}
				if s.Kind == "sleep" {
					s.Minutes = r.Range(1, 600)
				}
				p.Steps = append(p.Steps, s)
				live++
				spawned++
			}
		case k < 12 && spawned > 0:
			p.Steps = append(p.Steps, Step{Op: "release", Target: r.Intn(spawned)})
		case k < 13:
			if r.Chance(0.4) {
				// a goroutine that has been created but has not run yet when the
				// next request/snapshot looks at the process
				m, q, _ := genQuery(r)
				p.Steps = append(p.Steps, Step{Op: "spawnfresh", Kind: "recv", Creator: r.Intn(3)})
				if r.Chance(0.5) {
					p.Steps = append(p.Steps, Step{Op: "request", Method: m, Query: q})
				} else {
					p.Steps = append(p.Steps, Step{Op: "snapshot", Full: r.Chance(0.5)})
				}
				live++
				spawned++
				break
			}
			p.Steps = append(p.Steps, Step{Op: "advance", Minutes: r.Range(1, 300)})
		case k < 16:
			p.Steps = append(p.Steps, Step{Op: "snapshot", Full: r.Chance(0.3)})
		case k < 18:
			m, q, _ := genQuery(r)
			if r.Chance(0.15) {
				// fault at the ResponseWriter: the client hangs up during the response
				p.Steps = append(p.Steps, Step{Op: "failreq", Method: "GET", Query: q, FailAt: r.Range(1, 6)})
				m, q, _ = genQuery(r)
			}
			if r.Chance(0.12) {
				// fault at the request: its context is already cancelled (the client went away)
				p.Steps = append(p.Steps, Step{Op: "cancelreq", Method: "GET", Query: q})
				m, q, _ = genQuery(r)
			}
			rq := Step{Op: "request", Method: m, Query: q, Gzip: r.Chance(0.25)}
			if r.Chance(0.25) {
				rq.Hdr = reqHeaderKinds[r.Intn(len(reqHeaderKinds))]
			}
			rq.ViaForm = r.Chance(0.2)
			p.Steps = append(p.Steps, rq)
		case k < 19 && parked < 3:
			m, q, _ := genQuery(r)
			st := Step{Op: "startreq", Method: m, Query: q, Park: r.Range(1, 12), ViaForm: r.Chance(0.15)}
			if r.Chance(0.4) {
				st.Park, st.AtStack = 0, true
			}
			p.Steps = append(p.Steps, st)
			parked++
		default:
			if parked > 0 {
				p.Steps = append(p.Steps, Step{Op: "resumereq", Target: r.Intn(parked)})
			} else {
				p.Steps = append(p.Steps, Step{Op: "snapshot"})
			}
		}
	}
	p.Steps = append(p.Steps, Step{Op: "snapshot"}, Step{Op: "request", Method: "GET", Query: ""})
	return p
}

// ---- the goroutine population ------------------------------------------------

type entry struct {
	idx     int
	kind    string
	depth   int
	locked  bool
	creator int
	id      int
	alive   bool
	until   time.Time // sleep deadline
	minutes int
	ch      chan int
	ch2     chan int
	wg      sync.WaitGroup
	mu      sync.Mutex
	cond    *sync.Cond
	flag    bool
	started chan struct{}
	fresh   bool // created, not yet observed running: its state and frames are not known
	hop     int  // 1: body -> genericHop[T] -> rec ; 2: body -> (*entry).viaClosure -> closure -> rec
	parent  int  // id of the goroutine that executed the go statement
}

var reSelfID = regexp.MustCompile(`^goroutine (\d+) `)

func selfID() int {
	var buf [64]byte
	n := runtime.Stack(buf[:], false)
	m := reSelfID.FindSubmatch(buf[:n])
	if m == nil {
		return -1
	}
	id, _ := strconv.Atoi(string(m[1]))
	return id
}

func (e *entry) body() {
	e.id = selfID()
	if e.locked {
		runtime.LockOSThread()
		defer runtime.UnlockOSThread()
	}
	close(e.started)
	switch {
	case e.hop == 1:
		genericHop(e.depth, e, struct{ a, b int }{1, 2})
	case e.hop == 2:
		e.viaClosure()
	case e.hop >= 3 && len(exoticHops) > 0:
		exoticHops[(e.hop-3)%len(exoticHops)](e.depth, e)
	default:
		rec(e.depth, e)
	}
}

// exoticHops are functions compiled under //line directives that place them
// in source files with the path shapes of real dependencies (module cache,
// GOPATH, vendor, gopkg.in, golang.org/x, pseudo-versions); they exist only in
// builds made by stages/C20.sh (zz_exotic_test.go is generated and added by
// the overlay). Hop k >= 3 puts exoticHops[k-3] on the stack.
var (
	exoticHops  []func(int, *entry) int
	exoticNames []string
)

// genericHop puts a generic instantiation on the stack (printed as
// genericHop[...] by the runtime).
//
//go:noinline
func genericHop[T any](n int, e *entry, v T) T {
	rec(n, e)
	return v
}

// viaClosure puts an anonymous function of a method on the stack.
//
//go:noinline
func (e *entry) viaClosure() {
	func() {
		rec(e.depth, e)
	}()
}

//go:noinline
func rec(n int, e *entry) int {
	if n == 0 {
		block(e)
		return 0
	}
	return rec(n-1, e) + 1
}

//go:noinline
func block(e *entry) {
	switch e.kind {
	case "recv":
		<-e.ch
	case "send":
		e.ch <- 1
	case "select2":
		select {
		case <-e.ch:
		case <-e.ch2:
		}
	case "selecttimer":
		select {
		case <-e.ch:
		case <-time.After(1000 * time.Hour):
		}
	case "sleep":
		time.Sleep(time.Duration(e.minutes)*time.Minute + 30*time.Second)
	case "wg":
		e.wg.Wait()
	case "cond":
		e.mu.Lock()
		for !e.flag {
			e.cond.Wait()
		}
		e.mu.Unlock()
	case "nilrecv":
		var c chan int
		<-c
	case "nilsend":
		var c chan int
		c <- 1
	case "selectnone":
		select {}
	}
}

//go:noinline
func spawnA(e *entry) { go e.body() }

//go:noinline
func spawnB(e *entry) { go e.body() }

//go:noinline
func spawnC(e *entry) { go e.body() }

// spawnD starts the goroutine from a closure: the creator is an anonymous
// function.
//
//go:noinline
func spawnD(e *entry) {
	func() { go e.body() }()
}

var creatorNames = []string{"spawnA", "spawnB", "spawnC", "spawnD.func1"}

func (e *entry) release() bool {
	switch e.kind {
	case "recv", "select2", "selecttimer":
		close(e.ch)
	case "send":
		<-e.ch
	case "wg":
		e.wg.Done()
	case "cond":
		e.mu.Lock()
		e.flag = true
		e.cond.Broadcast()
		e.mu.Unlock()
	default:
		return false // sleepers are released by the clock; nil-channel goroutines never
	}
	return true
}

// fullStack returns runtime.Stack(all) in a buffer that is large enough.
func fullStack() []byte {
	for n := 1 << 16; ; n *= 2 {
		buf := make([]byte, n)
		if m := runtime.Stack(buf, true); m < n {
			return buf[:m]
		}
	}
}

// header is the harness's own reading of a goroutine header line.
type header struct {
	id      int
	state   string
	minutes int
	locked  bool
}

var reHdr = regexp.MustCompile(`(?m)^goroutine (\d+)(?: [^\[\n]*)? \[([^\]\n]+)\]:$`)

func headers(dump []byte) []header {
	var out []header
	for _, m := range reHdr.FindAllSubmatch(dump, -1) {
		id, _ := strconv.Atoi(string(m[1]))
		h := header{id: id}
		for i, it := range strings.Split(string(m[2]), ", ") {
			switch {
			case i == 0:
				h.state = it
			case it == "locked to thread":
				h.locked = true
			case strings.HasSuffix(it, " minutes"):
				h.minutes, _ = strconv.Atoi(strings.TrimSuffix(it, " minutes"))
			}
		}
		out = append(out, h)
	}
	return out
}

// ---- oracles -------------------------------------------------------------------

// Finding is one failed clause.
type Finding struct {
	Clause string `json:"clause"`
	Msg    string `json:"message"`
	Step   int    `json:"step"`
}

type checker struct {
	findings []Finding
	step     int
	probes   map[string]int
	evals    int
	distinct map[string]bool
}

func (c *checker) fail(clause, f string, a ...any) {
	for _, x := range c.findings {
		if x.Clause == clause {
			return
		}
	}
	c.findings = append(c.findings, Finding{Clause: "C20." + clause, Msg: fmt.Sprintf(f, a...), Step: c.step})
}

func harnessFrames(g *stack.Goroutine) []string {
	var out []string
	for _, c := range g.Stack.Calls {
		if strings.Contains(c.Func.Complete, "livesim.") {
			out = append(out, c.Func.Name)
		}
	}
	return out
}

// checkLibrary evaluates the library clauses for one dump.
func (c *checker) checkLibrary(dump []byte, reg []*entry, opts *stack.Opts) {
	c.evals++
	var snap *stack.Snapshot
	var suffix []byte
	var err error
	func() {
		defer func() {
			if p := recover(); p != nil {
				c.fail("panic", "ScanSnapshot panics on the runtime's own dump: %v", p)
			}
		}()
		var pre bytes.Buffer
		snap, suffix, err = stack.ScanSnapshot(bytes.NewReader(dump), &pre, opts)
		if pre.Len() != 0 {
			c.fail("parse-error", "%d bytes of the runtime's dump were passed through as non-dump text: %q", pre.Len(), clip(pre.String(), 200))
		}
	}()
	if len(c.findings) > 0 && snap == nil {
		return
	}
	if err != nil && err.Error() != "EOF" {
		c.fail("parse-error", "the runtime's dump does not parse: %v; remainder %q", err, clip(string(suffix), 300))
		return
	}
	if len(suffix) != 0 {
		c.fail("parse-error", "the scan stopped early; remainder %q", clip(string(suffix), 300))
	}
	if snap == nil {
		c.fail("parse-error", "no snapshot for a dump of %d bytes", len(dump))
		return
	}
	hs := headers(dump)
	if len(hs) != len(snap.Goroutines) {
		c.fail("count", "%d goroutine headers in the runtime's dump but %d goroutines parsed", len(hs), len(snap.Goroutines))
		return
	}
	byID := map[int]*stack.Goroutine{}
	for i, g := range snap.Goroutines {
		h := hs[i]
		if g.ID != h.id {
			c.fail("ids", "goroutine #%d: id %d parsed, header says %d", i, g.ID, h.id)
			return
		}
		if g.State != h.state || g.SleepMin != h.minutes || g.SleepMax != h.minutes || g.Locked != h.locked {
			c.fail("header", "goroutine %d: parsed state=%q sleep=%d..%d locked=%v, header line says state=%q minutes=%d locked=%v", g.ID, g.State, g.SleepMin, g.SleepMax, g.Locked, h.state, h.minutes, h.locked)
			return
		}
		byID[g.ID] = g
	}
	nlive := 0
	for _, e := range reg {
		g := byID[e.id]
		if !e.alive {
			if g != nil {
				c.fail("gone", "goroutine %d (%s) was released and has exited but is in the snapshot", e.id, e.kind)
			}
			continue
		}
		nlive++
		if e.fresh {
			// only the count/ids/header clauses apply to it
			c.probes["fresh-goroutine-in-dump"]++
			continue
		}
		if g == nil {
			c.fail("registry", "registered goroutine %d (%s, depth %d) is missing from the snapshot", e.id, e.kind, e.depth)
			continue
		}
		if !strings.HasPrefix(g.State, wantState[e.kind]) {
			c.fail("registry", "goroutine %d blocks in %s but its state is %q (want prefix %q)", e.id, e.kind, g.State, wantState[e.kind])
		}
		if g.Locked != e.locked {
			c.fail("registry", "goroutine %d: locked=%v, plan says %v", e.id, g.Locked, e.locked)
		}
		fr := harnessFrames(g)
		elided := e.depth >= 110
		if g.Stack.Elided != elided {
			c.fail("registry", "goroutine %d (depth %d): Elided=%v, expected %v", e.id, e.depth, g.Stack.Elided, elided)
		}
		if elided {
			c.probes["elided-stack"]++
			if len(fr) == 0 || fr[0] != "block" || fr[len(fr)-1] != "(*entry).body" {
				c.fail("registry", "goroutine %d (depth %d, elided): harness frames %v do not start with block and end with (*entry).body", e.id, e.depth, clipList(fr))
			}
		} else {
			want := []string{"block"}
			for i := 0; i <= e.depth; i++ {
				want = append(want, "rec")
			}
			switch e.hop {
			case 1:
				want = append(want, "genericHop[...]")
			case 2:
				want = append(want, "(*entry).viaClosure.func1", "(*entry).viaClosure")
			default:
				if e.hop >= 3 && len(exoticHops) > 0 {
					want = append(want, exoticNames[(e.hop-3)%len(exoticHops)])
					c.probes["frame-in-dependency-like-path"]++
				}
			}
			want = append(want, "(*entry).body")
			if strings.Join(fr, ",") != strings.Join(want, ",") {
				c.fail("registry", "goroutine %d (%s, depth %d, hop %d): harness frames are %v, expected %v", e.id, e.kind, e.depth, e.hop, clipList(fr), clipList(want))
			}
		}
		if e.parent > 0 && len(g.CreatedBy.Calls) > 0 && !strings.HasSuffix(g.CreatedBy.Calls[0].Func.Complete, fmt.Sprintf(" in goroutine %d", e.parent)) {
			c.fail("registry", "goroutine %d was started by goroutine %d but its creator reads %q", e.id, e.parent, g.CreatedBy.Calls[0].Func.Complete)
		}
		if len(g.CreatedBy.Calls) == 0 || g.CreatedBy.Calls[0].Func.Name != creatorNames[e.creator] {
			name := "<none>"
			if len(g.CreatedBy.Calls) > 0 {
				name = g.CreatedBy.Calls[0].Func.Name
			}
			c.fail("registry", "goroutine %d: created by %q, plan says %s", e.id, name, creatorNames[e.creator])
		}
	}
	if nlive >= 3 {
		c.distinct[core.Hash(dump)] = true
	}
	c.probes[fmt.Sprintf("population<=%d", bucket(nlive))]++
}

func bucket(n int) int {
	for _, b := range []int{0, 3, 10, 30, 100, 300} {
		if n <= b {
			return b
		}
	}
	return 1000
}

func clip(s string, n int) string {
	if len(s) > n {
		return s[:n] + "…"
	}
	return s
}

func clipList(l []string) string {
	if len(l) > 12 {
		return fmt.Sprintf("%v…(%d)", l[:12], len(l))
	}
	return fmt.Sprint(l)
}

var reSig = regexp.MustCompile(`Signature #\d+: (\d+) routine`)

func balanced(body string) string {
	for _, tag := range []string{"div", "table", "ul", "h1", "h2"} {
		o := strings.Count(body, "<"+tag+">") + strings.Count(body, "<"+tag+" ")
		cl := strings.Count(body, "</"+tag+">")
		if o != cl {
			return fmt.Sprintf("<%s> opened %d times, closed %d times", tag, o, cl)
		}
	}
	return ""
}

// checkResponse evaluates the handler clauses.
// augmentOn reports what a valid query asks for (default: on).
func augmentOn(query string) bool {
	for _, kv := range strings.Split(query, "&") {
		if k, v, _ := strings.Cut(kv, "="); k == "augment" && v != "" {
			return v != "0"
		}
	}
	return true
}

// checkResponse evaluates the handler clauses. haveReg: at least one
// registered goroutine (whose frames take an *entry argument, declared in this
// package's sources on disk) was alive and had run when the dump was taken;
// -1 = unknown (free-running stage).
func (c *checker) checkResponseReg(method, query string, code int, ctype, body string, valid bool, wantCount int, truncated bool, haveReg int) {
	c.checkResponse(method, query, code, ctype, body, valid, wantCount, truncated)
	if !valid || truncated || code != 200 {
		return
	}
	// the augment parameter: with it the arguments are rewritten from the
	// sources (the harness's own frames show their *entry parameter by type),
	// with augment=0 they are not
	has := strings.Contains(body, "*entry(")
	what := fmt.Sprintf("%s /debug?%s", method, query)
	// (buckets that merge goroutines with different pointers show "*" instead,
	// so the positive half is asserted only where nothing can merge: the exact
	// similarity levels, or a single registered goroutine)
	exact := strings.Contains(query, "similarity=exactflags") || strings.Contains(query, "similarity=exactlines")
	if augmentOn(query) {
		if (haveReg == 1 || (haveReg > 0 && exact)) && !has {
			c.fail("augment-param", "%s: augmentation is on but no argument of the harness's frames was rewritten from the sources on disk", what)
		}
	} else if has {
		c.fail("augment-param", "%s: augment=0 but arguments were rewritten from the sources (*entry(...) appears in the page)", what)
	}
}

func (c *checker) checkResponse(method, query string, code int, ctype, body string, valid bool, wantCount int, truncated bool) {
	c.evals++
	what := fmt.Sprintf("%s /debug?%s", method, query)
	if !valid {
		if code < 400 || code > 499 {
			c.fail("status", "%s: invalid method/parameter answered with %d, want 4xx", what, code)
		}
		c.probes["request-invalid"]++
		return
	}
	c.probes["request-valid"]++
	if truncated {
		// the dump does not fit into maxmem: the handler cannot account for
		// everything and the statement does not ask it to; it must still answer
		if code != 200 && code != 500 {
			c.fail("status", "%s: dump larger than maxmem answered with %d (want 200 or 500)", what, code)
		}
		return
	}
	// One clause for everything a valid request is owed: which of its parts
	// fails (500, page cut short, goroutines unaccounted for) can depend on
	// where exactly a capture was cut, i.e. on pointer values printed by the
	// runtime, which no seed controls.
	if code != 200 {
		c.fail("valid-response", "%s: valid request answered with %d: %s", what, code, clip(body, 200))
		return
	}
	if !strings.HasPrefix(ctype, "text/html") {
		c.fail("valid-response", "%s: content type %q", what, ctype)
	}
	if b := balanced(body); b != "" || len(body) == 0 {
		c.fail("valid-response", "%s: the page is not complete: %s (%d bytes)", what, b, len(body))
		return
	}
	sum := 0
	for _, m := range reSig.FindAllStringSubmatch(body, -1) {
		n, _ := strconv.Atoi(m[1])
		sum += n
	}
	// every goroutine that existed is accounted for; the handler may run a few
	// of its own while it captures (an implementation is free to)
	if wantCount >= 0 && (sum < wantCount || sum > wantCount+2) {
		c.fail("valid-response", "%s: the page accounts for %d goroutines, the process had %d when the handler took its dump", what, sum, wantCount)
	}
}

func queryValid(method, query string) bool {
	if method != "GET" {
		return false
	}
	in := func(v string, l []string) bool {
		for _, x := range l {
			if x == v {
				return true
			}
		}
		return false
	}
	for _, kv := range strings.Split(query, "&") {
		if kv == "" {
			continue
		}
		k, v, _ := strings.Cut(kv, "=")
		v = strings.ReplaceAll(v, "+", " ")
		switch k {
		case "similarity":
			if v != "" && !in(v, validSim) {
				return false
			}
		case "augment":
			if !in(v, validAug) {
				return false
			}
		case "maxmem":
			if n, err := strconv.Atoi(v); v != "" && (err != nil || n <= 0) {
				return false
			}
		}
	}
	return true
}

// effectiveMaxmem is the capture limit a valid query asks for (the handler's
// documented default is 64 MiB, its documented minimum 1 MiB).
func effectiveMaxmem(query string) int {
	mm := 64 << 20
	for _, kv := range strings.Split(query, "&") {
		if k, v, _ := strings.Cut(kv, "="); k == "maxmem" && v != "" {
			if n, err := strconv.Atoi(v); err == nil {
				mm = n
			}
		}
	}
	if mm < 1<<20 {
		mm = 1 << 20
	}
	return mm
}

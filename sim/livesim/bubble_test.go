//go:build go1.25

package livesim

import (
	"bytes"
	"compress/gzip"
	"context"
	"fmt"
	"io"
	"net/http"
	"net/http/httptest"
	"strings"
	"sync"
	"testing"
	"testing/synctest"
	"time"

	"github.com/maruel/panicparse/v2/stack"
	"github.com/maruel/panicparse/v2/stack/webstack"
)

const haveBubble = true

// parkWriter is an http.ResponseWriter whose Write is an interception point:
// after Park writes the request goroutine parks (durably, on a bubble
// channel) until the plan resumes it.
type parkWriter struct {
	rec     *httptest.ResponseRecorder
	park    int
	writes  int
	parked  chan struct{}
	resume  chan struct{}
	didPark bool
}

func (p *parkWriter) Header() http.Header { return p.rec.Header() }
func (p *parkWriter) WriteHeader(c int)   { p.rec.WriteHeader(c) }
func (p *parkWriter) Write(b []byte) (int, error) {
	p.writes++
	if p.writes == p.park && !p.didPark {
		p.didPark = true
		close(p.parked)
		<-p.resume
	}
	return p.rec.Write(b)
}

// failWriter is a client that hangs up: from the failAt-th Write on every
// Write fails (fault injection at the ResponseWriter seam).
type failWriter struct {
	rec    *httptest.ResponseRecorder
	failAt int
	writes int
	failed bool
}

func (f *failWriter) Header() http.Header { return f.rec.Header() }
func (f *failWriter) WriteHeader(c int)   { f.rec.WriteHeader(c) }
func (f *failWriter) Write(b []byte) (int, error) {
	f.writes++
	if f.writes >= f.failAt {
		f.failed = true
		return 0, errClientGone
	}
	return f.rec.Write(b)
}

var errClientGone = fmt.Errorf("write tcp: broken pipe (client hung up)")

type pendingReq struct {
	st        Step
	w         *parkWriter
	done      chan struct{}
	wantCount int
	resumed   bool
	panicked  any
	haveReg   int
	atStack   chan struct{} // closed when the request reached the capture of its dump
	goStack   chan struct{} // closed to let it capture
}

// runPlan executes one plan inside a bubble and evaluates the clauses.
func runPlan(t *testing.T, p *Plan, c *checker) {
	defer func() {
		// "deadlock: main bubble goroutine has exited but blocked goroutines
		// remain": goroutines blocked on nil channels can never exit.
		if r := recover(); r != nil {
			if s := fmt.Sprint(r); len(s) < 8 || s[:8] != "deadlock" {
				c.fail("panic", "plan execution panicked: %v", r)
			}
		}
	}()
	if p.BurnIDs > 0 {
		var wg sync.WaitGroup
		for i := 0; i < p.BurnIDs; i += 100 {
			for j := 0; j < 100; j++ {
				wg.Add(1)
				go wg.Done()
			}
			wg.Wait()
		}
	}
	synctest.Test(t, func(t *testing.T) {
		var reg []*entry
		skipWait := false
		// seam at the handler's runtime.Stack call (overlay build): the request
		// that is marked parks there until the plan lets it capture its dump
		var parkNext *pendingReq
		webstack.VerifStackHook = func() {
			if pr := parkNext; pr != nil {
				parkNext = nil
				close(pr.atStack)
				<-pr.goStack
			}
		}
		defer func() { webstack.VerifStackHook = nil }()
		var reqs []*pendingReq
		// settled: registered goroutines that are alive and parked in block()
		settled := func() int {
			n := 0
			for _, e := range reg {
				if e.alive && !e.fresh {
					n++
				}
			}
			return n
		}
		finishReq := func(pr *pendingReq) {
			if pr.resumed {
				return
			}
			pr.resumed = true
			if pr.st.AtStack {
				select {
				case <-pr.atStack:
					// it captures its dump NOW: that is the population it must account for
					// (it is itself in it, parked in the hook)
					pr.wantCount = len(headers(fullStack()))
					pr.haveReg = settled()
					c.probes["request-parked-before-capture"]++
					close(pr.goStack)
				default:
					// rejected before it got to the capture
				}
			}
			select {
			case <-pr.w.parked:
				close(pr.w.resume)
			default:
			}
			<-pr.done
			if pr.panicked != nil {
				c.fail("panic", "handler panicked for %s ?%s: %v", pr.st.Method, pr.st.Query, pr.panicked)
				return
			}
			c.probes["request-parked-and-resumed"]++
			c.checkResponseReg(pr.st.Method, pr.st.Query, pr.w.rec.Code, pr.w.rec.Header().Get("Content-Type"), pr.w.rec.Body.String(), queryValid(pr.st.Method, pr.st.Query), pr.wantCount, false, pr.haveReg)
		}
		for si, st := range p.Steps {
			c.step = si
			switch st.Op {
			case "spawn":
				e := &entry{idx: len(reg), kind: st.Kind, depth: st.Depth, locked: st.Locked, creator: st.Creator % 4, alive: true, minutes: st.Minutes, hop: st.Hop,
					ch: make(chan int), ch2: make(chan int), started: make(chan struct{})}
				e.cond = sync.NewCond(&e.mu)
				if e.kind == "wg" {
					e.wg.Add(1)
				}
				e.until = time.Now().Add(time.Duration(e.minutes)*time.Minute + 30*time.Second)
				reg = append(reg, e)
				doSpawn := func() {
					e.parent = selfID()
					switch e.creator {
					case 0:
						spawnA(e)
					case 1:
						spawnB(e)
					case 2:
						spawnC(e)
					default:
						spawnD(e)
					}
				}
				if st.Via {
					hd := make(chan struct{})
					go func() { doSpawn(); close(hd) }()
					<-hd
					c.probes["spawn:via-helper-goroutine"]++
				} else {
					doSpawn()
				}
				<-e.started
				c.probes["spawn:"+e.kind]++
			case "spawnfresh":
				// one P: the new goroutine stays in the run queue until this one
				// blocks, so the next step sees it before it has run
				e := &entry{idx: len(reg), kind: "recv", creator: st.Creator % 3, alive: true, fresh: true,
					ch: make(chan int), ch2: make(chan int), started: make(chan struct{})}
				e.cond = sync.NewCond(&e.mu)
				reg = append(reg, e)
				switch e.creator {
				case 0:
					spawnA(e)
				case 1:
					spawnB(e)
				default:
					spawnC(e)
				}
				skipWait = true
				c.probes["spawn:fresh"]++
			case "release":
				if len(reg) > 0 {
					e := reg[st.Target%len(reg)]
					if e.alive && e.release() {
						e.alive = false
						c.probes["released"]++
					}
				}
			case "advance":
				time.Sleep(time.Duration(st.Minutes) * time.Minute)
				now := time.Now()
				for _, e := range reg {
					if e.alive && e.kind == "sleep" && !e.until.After(now) {
						e.alive = false
						c.probes["sleeper-expired"]++
					}
				}
			case "snapshot":
				if !skipWait {
					synctest.Wait()
				}
				opts := &stack.Opts{NameArguments: true}
				if st.Full {
					opts = stack.DefaultOpts()
				}
				c.checkLibrary(fullStack(), reg, opts)
			case "request":
				if !skipWait {
					synctest.Wait()
				}
				dump := fullStack()
				pre := len(headers(dump))
				// the handler's own dump is a little larger (its frames); leave a margin
				truncated := len(dump)+16384 >= effectiveMaxmem(st.Query)
				if truncated {
					c.probes["request-truncated-regime"]++
				} else if len(dump) > 8<<20 {
					c.probes["request-dump>8MiB-complete"]++
				} else if len(dump) > 1<<20 {
					c.probes["request-dump>1MiB-complete"]++
				}
				rec := httptest.NewRecorder()
				req := mkReq(st)
				if st.Hdr != "" {
					c.probes["request-with-header"]++
				}
				if st.ViaForm {
					c.probes["request-parameters-via-form"]++
				}
				func() {
					defer func() {
						if r := recover(); r != nil {
							c.fail("panic", "handler panicked for %s ?%s: %v", st.Method, st.Query, r)
						}
					}()
					webstack.SnapshotHandler(rec, req)
				}()
				body := rec.Body.String()
				if rec.Header().Get("Content-Encoding") == "gzip" {
					// a handler that compresses must send a complete stream
					zr, err := gzip.NewReader(strings.NewReader(body))
					var plain []byte
					if err == nil {
						plain, err = io.ReadAll(zr)
					}
					if err != nil && queryValid(st.Method, st.Query) {
						c.fail("valid-response", "%s /debug?%s (Accept-Encoding: gzip): the compressed page cannot be read to its end: %v", st.Method, st.Query, err)
					}
					body = string(plain)
					c.probes["response-gzip"]++
				}
				c.checkResponseReg(st.Method, st.Query, rec.Code, rec.Header().Get("Content-Type"), body, queryValid(st.Method, st.Query), pre, truncated, settled())
			case "cancelreq":
				synctest.Wait()
				ctx, cancel := context.WithCancel(context.Background())
				cancel()
				func() {
					defer func() {
						if r := recover(); r != nil {
							c.fail("panic", "handler panicked for a request whose context was cancelled (%s ?%s): %v", st.Method, st.Query, r)
						}
					}()
					webstack.SnapshotHandler(httptest.NewRecorder(), httptest.NewRequest(st.Method, "/debug?"+st.Query, nil).WithContext(ctx))
				}()
				c.probes["request-context-cancelled"]++
			case "failreq":
				synctest.Wait()
				fw := &failWriter{rec: httptest.NewRecorder(), failAt: st.FailAt}
				func() {
					defer func() {
						if r := recover(); r != nil {
							c.fail("panic", "handler panicked when the client hung up during %s ?%s: %v", st.Method, st.Query, r)
						}
					}()
					webstack.SnapshotHandler(fw, httptest.NewRequest(st.Method, "/debug?"+st.Query, nil))
				}()
				if fw.failed {
					c.probes["request-client-hung-up"]++
				}
			case "startreq":
				synctest.Wait()
				pre := len(headers(fullStack()))
				pr := &pendingReq{st: st, done: make(chan struct{}), wantCount: pre + 1, haveReg: settled(), atStack: make(chan struct{}), goStack: make(chan struct{}),
					w: &parkWriter{rec: httptest.NewRecorder(), park: st.Park, parked: make(chan struct{}), resume: make(chan struct{})}}
				reqs = append(reqs, pr)
				req := mkReq(st)
				if st.AtStack {
					parkNext = pr
				}
				go func() {
					defer close(pr.done)
					defer func() { pr.panicked = recover() }()
					webstack.SnapshotHandler(pr.w, req)
				}()
			case "resumereq":
				if len(reqs) > 0 {
					finishReq(reqs[st.Target%len(reqs)])
				}
			}
			if st.Op == "spawnfresh" {
				continue // no Wait: the next step must see the goroutine before it runs
			}
			skipWait = false
			synctest.Wait()
			// a request that was to park at its capture but was rejected before it
			// got there must not leave the mark for the next request
			parkNext = nil
			for _, e := range reg {
				if e.fresh {
					select {
					case <-e.started:
						e.fresh = false // it has run and is parked in block() now
					default:
					}
				}
			}
		}
		// wind down: resume requests, release what can be released, let the
		// sleepers expire
		for _, pr := range reqs {
			finishReq(pr)
		}
		for _, e := range reg {
			if e.alive {
				e.release()
			}
		}
		time.Sleep(1001 * time.Hour)
		synctest.Wait()
		// every request has been answered: nothing of the handler may be left behind
		if s, _, _ := stack.ScanSnapshot(bytes.NewReader(fullStack()), io.Discard, &stack.Opts{}); s != nil {
			for _, g := range s.Goroutines {
				for _, cl := range g.Stack.Calls {
					if strings.Contains(cl.Func.Complete, "/webstack.") {
						c.fail("leak", "after all requests were answered goroutine %d [%s] is still inside package webstack (%s)", g.ID, g.State, cl.Func.Complete)
					}
				}
			}
		}
	})
}

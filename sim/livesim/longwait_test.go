package livesim

import (
	"bytes"
	"fmt"
	"net/http/httptest"
	"os"
	"runtime"
	"strings"
	"testing"
	"time"

	"github.com/maruel/panicparse/v2/stack"
	"github.com/maruel/panicparse/v2/stack/webstack"
)

// TestLongWait (thorough tier only, real time): goroutines that have been
// blocked for more than a minute make the runtime print ", N minutes" in their
// headers (the bubble's fake clock does not: the runtime measures waits with
// its own monotonic clock). NOT simulated; one fixed population, ~65 s.
func TestLongWait(t *testing.T) {
	if os.Getenv("LIVESIM_MODE") != "longwait" {
		t.Skip()
	}
	stop := make(chan struct{})
	for i := 0; i < 6; i++ {
		locked := i%3 == 0
		go func() {
			if locked {
				runtime.LockOSThread()
				defer runtime.UnlockOSThread()
			}
			rec(i, &entry{kind: "recv", ch: make(chan int)})
		}()
	}
	defer close(stop)
	// the runtime notes since when a goroutine waits at the first GC that finds it
	// parked; the minutes are counted from there
	// (it records the start of the PREVIOUS cycle's mark termination, so two
	// collections are needed)
	time.Sleep(200 * time.Millisecond)
	runtime.GC()
	runtime.GC()
	time.Sleep(65 * time.Second)
	dump := fullStack()
	hs := headers(dump)
	withMinutes := 0
	for _, h := range hs {
		if h.minutes > 0 {
			withMinutes++
		}
	}
	if withMinutes == 0 {
		for _, m := range reHdr.FindAll(dump, 12) {
			fmt.Printf("hdr: %s\n", m)
		}
		t.Skipf("the runtime printed no ', N minutes' item after 65 s (nothing to check)")
	}
	s, suffix, err := stack.ScanSnapshot(bytes.NewReader(dump), &bytes.Buffer{}, &stack.Opts{NameArguments: true})
	if (err != nil && err.Error() != "EOF") || len(suffix) != 0 || s == nil {
		t.Fatalf("C20.parse-error: err=%v remainder=%q", err, clip(string(suffix), 200))
	}
	if len(s.Goroutines) != len(hs) {
		t.Fatalf("C20.count: %d headers, %d goroutines", len(hs), len(s.Goroutines))
	}
	for i, g := range s.Goroutines {
		h := hs[i]
		if g.ID != h.id || g.State != h.state || g.SleepMin != h.minutes || g.SleepMax != h.minutes || g.Locked != h.locked {
			t.Fatalf("C20.header: goroutine %d: parsed state=%q sleep=%d..%d locked=%v, header says state=%q minutes=%d locked=%v", g.ID, g.State, g.SleepMin, g.SleepMax, g.Locked, h.state, h.minutes, h.locked)
		}
	}
	rec := httptest.NewRecorder()
	webstack.SnapshotHandler(rec, httptest.NewRequest("GET", "/debug?similarity=exactlines", nil))
	c := newChecker()
	c.checkResponse("GET", "similarity=exactlines", rec.Code, rec.Header().Get("Content-Type"), rec.Body.String(), true, -1, false)
	for _, f := range c.findings {
		t.Errorf("%s: %s", f.Clause, f.Msg)
	}
	if !strings.Contains(rec.Body.String(), "mins]") {
		t.Errorf("C20.valid-response: goroutines have waited for more than a minute but the page shows no sleep time")
	}
	fmt.Printf("longwait: %d of %d headers carried a minutes item\n", withMinutes, len(hs))
}

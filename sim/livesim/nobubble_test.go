//go:build !go1.25

package livesim

import "testing"

const haveBubble = false

func runPlan(t *testing.T, p *Plan, c *checker) { t.Skip("testing/synctest needs go1.25+") }

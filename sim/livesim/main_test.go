package livesim

import (
	"bytes"
	"encoding/json"
	"fmt"
	"os"
	"os/exec"
	"path/filepath"
	"sort"
	"strconv"
	"strings"
	"sync"
	"testing"
	"time"

	"verifsim/core"
)

// Modes (LIVESIM_MODE): orchestrate | worker | replay | race. Anything else:
// the tests skip.

func TestMain(m *testing.M) {
	if gp := os.Getenv("LIVESIM_GOPATH"); gp != "" {
		// the scratch GOPATH with the files the //line directives of
		// zz_exotic_test.go point into (see stages/C20.sh); inherited by every
		// process that executes a plan
		os.Setenv("GOPATH", gp)
	}
	if os.Getenv("LIVESIM_MODE") == "orchestrate" {
		os.Exit(orchestrate())
	}
	os.Exit(m.Run())
}

type workerOut struct {
	Runs     int            `json:"runs"`
	Evals    int            `json:"evaluations"`
	Steps    int            `json:"steps"`
	Distinct []string       `json:"distinct"`
	Probes   map[string]int `json:"probes"`
	Findings []foundCase    `json:"findings"`
	Samples  []any          `json:"samples"`
	Digest   string         `json:"digest"`
}

type foundCase struct {
	Finding  Finding `json:"finding"`
	Plan     *Plan   `json:"plan"`
	Original int     `json:"original_steps"`
	// Orig is the plan as generated (reported when the minimised one turns
	// out to sit on an edge and does not replay).
	Orig *Plan `json:"original_plan,omitempty"`
}

func newChecker() *checker {
	return &checker{probes: map[string]int{}, distinct: map[string]bool{}}
}

func envInt(name string, def int) int {
	if v, err := strconv.Atoi(os.Getenv(name)); err == nil {
		return v
	}
	return def
}

// oneOut is the result of executing one plan in its own process.
type oneOut struct {
	Findings []Finding      `json:"findings"`
	Evals    int            `json:"evaluations"`
	Distinct []string       `json:"distinct"`
	Probes   map[string]int `json:"probes"`
}

// TestOne executes exactly one plan. Every plan runs in a process of its own:
// goroutines blocked on nil channels can never exit, and what earlier plans
// left behind would otherwise be part of later dumps (hidden state that a
// replay in a fresh process does not have).
func TestOne(t *testing.T) {
	if os.Getenv("LIVESIM_MODE") != "one" {
		t.Skip()
	}
	b, err := os.ReadFile(os.Getenv("LIVESIM_CASE"))
	if err != nil {
		t.Fatal(err)
	}
	var p Plan
	if err := json.Unmarshal(b, &p); err != nil {
		t.Fatal(err)
	}
	c := newChecker()
	runPlan(t, &p, c)
	o := oneOut{Findings: c.findings, Evals: c.evals, Probes: c.probes}
	for k := range c.distinct {
		o.Distinct = append(o.Distinct, k)
	}
	sort.Strings(o.Distinct)
	ob, _ := json.Marshal(o)
	if err := os.WriteFile(os.Getenv("LIVESIM_OUT"), ob, 0o644); err != nil {
		t.Fatal(err)
	}
}

// execPlan runs one plan in a fresh process of this test binary.
func execPlan(p *Plan) (*oneOut, error) {
	self, _ := os.Executable()
	f, err := os.CreateTemp("", "livesim-plan-*.json")
	if err != nil {
		return nil, err
	}
	defer os.Remove(f.Name())
	json.NewEncoder(f).Encode(p)
	f.Close()
	of := f.Name() + ".out"
	defer os.Remove(of)
	cmd := exec.Command(self, "-test.run=^TestOne$", "-test.timeout=150s")
	cmd.Env = append(os.Environ(), "LIVESIM_MODE=one", "LIVESIM_CASE="+f.Name(), "LIVESIM_OUT="+of, "GOMAXPROCS=1")
	if p.Traceback != "" {
		cmd.Env = append(cmd.Env, "GOTRACEBACK="+p.Traceback)
	}
	ob, err := cmd.CombinedOutput()
	b, rerr := os.ReadFile(of)
	if rerr != nil {
		// the process died (a crash of the runtime or an unrecovered panic of the
		// library in another goroutine): that is a finding, not infrastructure
		if err != nil {
			if bytes.Contains(ob, []byte("test timed out")) {
				// plans take seconds; one that is still running after 150 s has a
				// request (or a snapshot) that never returned
				return &oneOut{Findings: []Finding{{Clause: "C20.no-answer", Msg: "the plan did not finish within 150 s (plans normally take seconds): a request or snapshot never returned; goroutines at the timeout: " + tail(string(ob), 2500)}}, Probes: map[string]int{}}, nil
			}
			// ... unless the goroutine that brought the process down never was
			// in the code under test: then the harness itself failed (exit 2)
			head := string(ob)
			if i := strings.Index(head, "\n\ngoroutine "); i >= 0 {
				// up to the end of the first goroutine's stack
				if j := strings.Index(head[i+2:], "\n\n"); j >= 0 {
					head = head[:i+2+j]
				}
			}
			if (strings.HasPrefix(head, "panic: ") || strings.Contains(head, "\npanic: ")) && !strings.Contains(head, "github.com/maruel/panicparse") {
				return nil, fmt.Errorf("the process executing the plan died in the harness, not in the code under test: %s", clip(head, 1500))
			}
			return &oneOut{Findings: []Finding{{Clause: "C20.panic", Msg: "the process executing the plan died: " + err.Error() + ": " + clip(head, 1200) + " ... " + tail(string(ob), 600)}}, Probes: map[string]int{}}, nil
		}
		return nil, rerr
	}
	var o oneOut
	if err := json.Unmarshal(b, &o); err != nil {
		return nil, err
	}
	if o.Probes == nil {
		o.Probes = map[string]int{}
	}
	return &o, nil
}

func TestWorker(t *testing.T) {
	if os.Getenv("LIVESIM_MODE") != "worker" {
		t.Skip()
	}
	seed, _ := strconv.ParseUint(os.Getenv("LIVESIM_SEED"), 10, 64)
	off, stride, runs := envInt("LIVESIM_OFFSET", 0), envInt("LIVESIM_STRIDE", 1), envInt("LIVESIM_RUNS", 10)
	out := &workerOut{Probes: map[string]int{}}
	seenClause := map[string]bool{}
	var dig bytes.Buffer
	for i := off; i < runs; i += stride {
		r := core.NewRng(core.Mix(seed, "C20", uint64(i)))
		p := GenPlan(r, seed, uint64(i))
		o, err := execPlan(p)
		if err != nil {
			t.Fatal(err)
		}
		out.Runs++
		out.Evals += o.Evals
		out.Steps += len(p.Steps)
		out.Distinct = append(out.Distinct, o.Distinct...)
		for k, v := range o.Probes {
			out.Probes[k] += v
		}
		fmt.Fprintf(&dig, "%d:%d:%d:%d;", i, r.Draws, len(p.Steps), len(o.Findings))
		if len(out.Samples) < 1 {
			out.Samples = append(out.Samples, map[string]any{"plan_steps": p.Steps[:min(len(p.Steps), 12)], "total_steps": len(p.Steps)})
		}
		for _, f := range o.Findings {
			if seenClause[f.Clause] {
				continue
			}
			seenClause[f.Clause] = true
			minp := shrinkPlan(p, f.Clause)
			fc := foundCase{Finding: f, Plan: minp, Original: len(p.Steps)}
			if len(minp.Steps) < len(p.Steps) {
				fc.Orig = p
			}
			out.Findings = append(out.Findings, fc)
		}
	}
	sort.Strings(out.Distinct)
	out.Digest = core.Hash(dig.Bytes())
	b, _ := json.Marshal(out)
	if err := os.WriteFile(os.Getenv("LIVESIM_OUT"), b, 0o644); err != nil {
		t.Fatal(err)
	}
}

func hasClause(fs []Finding, clause string) bool {
	for _, f := range fs {
		if f.Clause == clause {
			return true
		}
	}
	return false
}

// shrinkPlan drops steps while the same clause keeps failing; every candidate
// runs in a fresh process, like the original.
func shrinkPlan(p *Plan, clause string) *Plan {
	cur := &Plan{Seed: p.Seed, Run: p.Run, BurnIDs: p.BurnIDs, Traceback: p.Traceback, Steps: append([]Step(nil), p.Steps...)}
	if clause == "C20.no-answer" {
		return cur // every candidate would cost the full timeout
	}
	evals := 0
	for chunk := len(cur.Steps) / 2; chunk >= 1; chunk /= 2 {
		for i := 0; i+chunk <= len(cur.Steps) && evals < 40; {
			cand := &Plan{Seed: p.Seed, Run: p.Run, BurnIDs: p.BurnIDs, Traceback: p.Traceback}
			cand.Steps = append(append([]Step{}, cur.Steps[:i]...), cur.Steps[i+chunk:]...)
			o, err := execPlan(cand)
			evals++
			if err == nil && hasClause(o.Findings, clause) {
				cur = cand
			} else {
				i += chunk
			}
		}
	}
	// a minimised plan can sit on an edge (a dump a few bytes above a buffer
	// size: the bytes of a dump vary a little from process to process with the
	// pointer values in it). It is kept only if it fails twice more; otherwise
	// the plan as generated is reported.
	if len(cur.Steps) < len(p.Steps) {
		for k := 0; k < 2; k++ {
			if o, err := execPlan(cur); err != nil || !hasClause(o.Findings, clause) {
				return &Plan{Seed: p.Seed, Run: p.Run, BurnIDs: p.BurnIDs, Traceback: p.Traceback, Steps: append([]Step(nil), p.Steps...)}
			}
		}
	}
	return cur
}

type replayFile struct {
	Property      string `json:"property"`
	Clause        string `json:"clause"`
	Message       string `json:"message"`
	Deterministic bool   `json:"deterministic"`
	Seed          uint64 `json:"seed"`
	Run           uint64 `json:"run"`
	Plan          *Plan  `json:"plan"`
	Note          string `json:"note,omitempty"`
	ReplayCmd     string `json:"replay_cmd"`
}

func TestReplay(t *testing.T) {
	if os.Getenv("LIVESIM_MODE") != "replay" {
		t.Skip()
	}
	b, err := os.ReadFile(os.Getenv("LIVESIM_CASE"))
	if err != nil {
		t.Fatal(err)
	}
	var rf replayFile
	if err := json.Unmarshal(b, &rf); err != nil {
		t.Fatal(err)
	}
	if rf.Plan == nil {
		fmt.Printf("replay: %s is the record of a free-running stage; stored report:\n%s\n", rf.Clause, rf.Message)
		return
	}
	o, err := execPlan(rf.Plan)
	if err != nil {
		t.Fatal(err)
	}
	for _, f := range o.Findings {
		fmt.Printf("replay: %s: %s\n", f.Clause, clip(f.Msg, 600))
	}
	if hasClause(o.Findings, rf.Clause) {
		fmt.Printf("REPRODUCED property=C20 clause=%s\n", rf.Clause)
		t.Fail()
		return
	}
	fmt.Printf("NOT-REPRODUCED property=C20 clause=%s\n", rf.Clause)
}

func orchestrate() int {
	t0 := time.Now()
	dir := os.Getenv("VERIF_DIR")
	if dir == "" {
		dir = "/verif"
	}
	tier := os.Getenv("VERIF_TIER")
	if tier == "" {
		tier = "quick"
	}
	seed := uint64(1)
	if v, err := strconv.ParseUint(os.Getenv("VERIF_SEED"), 10, 64); err == nil {
		seed = v
	}
	runs := 1600
	if tier == "thorough" {
		runs = 16000
	}
	runs = envInt("VERIF_RUNS", runs)
	workers := envInt("VERIF_WORKERS", 16)
	if workers > runs {
		workers = runs
	}
	fmt.Printf("livesim: property=C20 tier=%s VERIF_SEED=%d runs=%d workers=%d\n", tier, seed, runs, workers)
	self, _ := os.Executable()
	tmp, err := os.MkdirTemp("", "livesim")
	if err != nil {
		fmt.Fprintln(os.Stderr, "INFRASTRUCTURE:", err)
		return 2
	}
	defer os.RemoveAll(tmp)
	outs := make([]*workerOut, workers)
	errs := make([]error, workers)
	var wg sync.WaitGroup
	for w := 0; w < workers; w++ {
		wg.Add(1)
		go func(w int) {
			defer wg.Done()
			of := filepath.Join(tmp, fmt.Sprintf("w%d.json", w))
			cmd := exec.Command(self, "-test.run=^TestWorker$", "-test.timeout=6h")
			cmd.Env = append(os.Environ(), "LIVESIM_MODE=worker", fmt.Sprintf("LIVESIM_SEED=%d", seed), fmt.Sprintf("LIVESIM_OFFSET=%d", w), fmt.Sprintf("LIVESIM_STRIDE=%d", workers), fmt.Sprintf("LIVESIM_RUNS=%d", runs), "LIVESIM_OUT="+of, "GOMAXPROCS=1")
			ob, err := cmd.CombinedOutput()
			if err != nil {
				errs[w] = fmt.Errorf("worker %d: %v\n%s", w, err, tail(string(ob), 3000))
				return
			}
			b, err := os.ReadFile(of)
			if err != nil {
				errs[w] = fmt.Errorf("worker %d: %v\n%s", w, err, tail(string(ob), 2000))
				return
			}
			var o workerOut
			if err := json.Unmarshal(b, &o); err != nil {
				errs[w] = err
				return
			}
			outs[w] = &o
		}(w)
	}
	wg.Wait()
	for _, e := range errs {
		if e != nil {
			fmt.Fprintln(os.Stderr, "INFRASTRUCTURE:", e)
			return 2
		}
	}
	tot := &workerOut{Probes: map[string]int{}}
	distinct := map[string]bool{}
	for _, o := range outs {
		tot.Runs += o.Runs
		tot.Evals += o.Evals
		tot.Steps += o.Steps
		for _, d := range o.Distinct {
			distinct[d] = true
		}
		for k, v := range o.Probes {
			tot.Probes[k] += v
		}
		tot.Findings = append(tot.Findings, o.Findings...)
		if len(tot.Samples) < 2 {
			tot.Samples = append(tot.Samples, o.Samples...)
		}
	}
	// reach: a probe stuck at zero means the plans no longer get to what the
	// check is about; that is infrastructure trouble, not a pass
	if len(tot.Findings) == 0 {
		for _, name := range []string{"request-valid", "request-invalid", "request-parked-before-capture", "request-parked-and-resumed", "request-client-hung-up", "request-context-cancelled", "released", "spawn:via-helper-goroutine", "elided-stack", "sleeper-expired"} {
			if tot.Probes[name] == 0 {
				fmt.Fprintf(os.Stderr, "INFRASTRUCTURE: reach probe %q stayed at zero over %d plans: the workload no longer reaches what this check is about\n", name, tot.Runs)
				return 2
			}
		}
	}
	// free-running -race stages (not simulated)
	free := map[string]any{}
	rc := 0
	nviol := 0
	os.MkdirAll(filepath.Join(dir, "replays"), 0o755)
	type freeRun struct{ bin, procs string }
	var freeRuns []freeRun
	for _, bin := range filepath.SplitList(os.Getenv("LIVESIM_RACE_BINS")) {
		// many processors, and two (requests then share a P: per-P caches such as
		// sync.Pool hand the same object to consecutive requests)
		freeRuns = append(freeRuns, freeRun{bin, "16"}, freeRun{bin, "2"})
	}
	for _, fr := range freeRuns {
		bin := fr.bin
		rounds := 3
		if tier == "thorough" {
			rounds = 60
		}
		t1 := time.Now()
		cmd := exec.Command(bin, "-test.run=^TestFreeRunning$", "-test.timeout=2h")
		cmd.Env = append(os.Environ(), "LIVESIM_MODE=race", fmt.Sprintf("LIVESIM_SEED=%d", seed), fmt.Sprintf("LIVESIM_ROUNDS=%d", rounds), "GORACE=halt_on_error=1 exitcode=66", "GOMAXPROCS="+fr.procs)
		var obuf bytes.Buffer
		cmd.Stdout, cmd.Stderr = &obuf, &obuf
		err := cmd.Start()
		if err == nil {
			done := make(chan error, 1)
			go func() { done <- cmd.Wait() }()
			limit := 5 * time.Minute
			if tier == "thorough" {
				limit = 45 * time.Minute
			}
			select {
			case err = <-done:
			case <-time.After(limit):
				cmd.Process.Kill()
				<-done
				fmt.Fprintf(os.Stderr, "INFRASTRUCTURE: free-running stage %s: watchdog: not finished after %v (killed)\n", filepath.Base(bin), limit)
				return 2
			}
		}
		ob := obuf.Bytes()
		name := filepath.Base(bin) + "@GOMAXPROCS=" + fr.procs
		free[name] = map[string]any{"rounds": rounds, "wall_s": time.Since(t1).Seconds(), "ok": err == nil}
		if err != nil {
			nviol++
			rc = 1
			path := filepath.Join(dir, "replays", fmt.Sprintf("C20-%d-free-running-%s.json", seed, name))
			rf := replayFile{Property: "C20", Clause: "C20.race", Message: tail(string(ob), 6000), Deterministic: false, Seed: seed, Note: "free-running -race stage: the schedule is not controlled; the witness is the report above", ReplayCmd: "/verif/run.sh replay " + path}
			b, _ := json.MarshalIndent(rf, "", " ")
			os.WriteFile(path, b, 0o644)
			fmt.Printf("VIOLATION property=C20 replay=%s\n  clause=C20.race (free-running stage %s) %s\n", path, name, clip(tail(string(ob), 1500), 1500))
		}
	}
	// thorough only: goroutines that really waited for more than a minute
	if tier == "thorough" {
		t1 := time.Now()
		cmd := exec.Command(self, "-test.run=^TestLongWait$", "-test.timeout=10m", "-test.v")
		cmd.Env = append(os.Environ(), "LIVESIM_MODE=longwait")
		ob, err := cmd.CombinedOutput()
		free["longwait"] = map[string]any{"what": "6 goroutines parked for 65 s of real time so that the runtime prints ', N minutes'; headers, count and the handler's page checked; not simulated", "wall_s": time.Since(t1).Seconds(), "ok": err == nil, "output": tail(string(ob), 300)}
		if err != nil {
			nviol++
			rc = 1
			path := filepath.Join(dir, "replays", fmt.Sprintf("C20-%d-longwait.json", seed))
			rf := replayFile{Property: "C20", Clause: "C20.header", Message: tail(string(ob), 4000), Deterministic: false, Seed: seed, Note: "real-time stage (65 s); re-run with LIVESIM_MODE=longwait", ReplayCmd: "/verif/run.sh replay " + path}
			b, _ := json.MarshalIndent(rf, "", " ")
			os.WriteFile(path, b, 0o644)
			fmt.Printf("VIOLATION property=C20 replay=%s\n  (long-wait stage) %s\n", path, clip(tail(string(ob), 1200), 1200))
		}
	}
	// report one finding per clause, verified in a fresh process
	sort.SliceStable(tot.Findings, func(i, j int) bool { return tot.Findings[i].Finding.Clause < tot.Findings[j].Finding.Clause })
	seen := map[string]bool{}
	infra := 0
	for _, f := range tot.Findings {
		if seen[f.Finding.Clause] {
			continue
		}
		seen[f.Finding.Clause] = true
		nviol++
		path := filepath.Join(dir, "replays", fmt.Sprintf("C20-%d-%d-%s.json", seed, f.Plan.Run, f.Finding.Clause[4:]))
		rf := replayFile{Property: "C20", Clause: f.Finding.Clause, Message: f.Finding.Msg, Deterministic: true, Seed: seed, Run: f.Plan.Run, Plan: f.Plan, ReplayCmd: "/verif/run.sh replay " + path,
			Note: fmt.Sprintf("plan minimised from %d to %d steps", f.Original, len(f.Plan.Steps))}
		b, _ := json.MarshalIndent(rf, "", " ")
		if err := os.WriteFile(path, b, 0o644); err != nil {
			fmt.Fprintln(os.Stderr, "INFRASTRUCTURE:", err)
			return 2
		}
		tryReplay := func() []byte {
			cmd := exec.Command(self, "-test.run=^TestReplay$")
			cmd.Env = append(os.Environ(), "LIVESIM_MODE=replay", "LIVESIM_CASE="+path)
			ob, _ := cmd.CombinedOutput()
			return ob
		}
		reproduced := func(ob []byte) bool {
			return bytes.Contains(ob, []byte("REPRODUCED property=C20 clause="+f.Finding.Clause)) && !bytes.Contains(ob, []byte("NOT-REPRODUCED"))
		}
		ob := tryReplay()
		if !reproduced(ob) && f.Orig != nil {
			// the minimised plan sits on an edge: report the plan as generated
			rf.Plan, rf.Note = f.Orig, fmt.Sprintf("the plan as generated (%d steps); its minimised form did not replay reliably", len(f.Orig.Steps))
			b, _ := json.MarshalIndent(rf, "", " ")
			os.WriteFile(path, b, 0o644)
			ob = tryReplay()
		}
		if !reproduced(ob) {
			// never a VIOLATION; other findings of the batch are still reported
			fmt.Fprintf(os.Stderr, "INFRASTRUCTURE: fresh-process replay of %s did not reproduce (dropped): %s\n", path, tail(string(ob), 400))
			os.Remove(path)
			nviol--
			infra++
			continue
		}
		fmt.Printf("VIOLATION property=C20 replay=%s\n  clause=%s %s\n", path, f.Finding.Clause, clip(f.Finding.Msg, 600))
		rc = 1
	}
	wall := time.Since(t0).Seconds()
	cov := map[string]any{
		"evaluations":         tot.Evals,
		"distinct_nontrivial": len(distinct),
		"rule":                "one simulated run = one seeded churn plan (<= 40 steps, <= 300 live goroutines: spawn kinds chan receive/send, select with 2 cases / with a timer, sleep, WaitGroup.Wait, Cond.Wait, nil-channel receive/send, select{}; recursion depth 0..150 (>= 110 makes the runtime elide frames); LockOSThread; 3 creator functions; release; clock advance; library snapshot; handler request with method x similarity x augment x maxmem from valid and invalid values; request parked mid-page in its ResponseWriter.Write and resumed later) executed inside a testing/synctest bubble; after every step synctest.Wait() makes the registry exact; one evaluation = one library snapshot or one handler response checked; distinct_nontrivial = distinct runtime dumps (by hash) taken with >= 3 live registry goroutines",
		"samples":             tot.Samples,
		"simulated_runs":      tot.Runs,
		"plan_steps":          tot.Steps,
		"runs_per_hour":       int(float64(tot.Runs) / wall * 3600),
		"simulated_time":      "fake clock of the bubble: every plan advances it by up to 40 x 300 minutes plus 1001 h at wind-down; only sleepers depend on it",
		"probes":              tot.Probes,
		"free_running":        free,
		"real_components":     []string{"Go runtime traceback printer (go1.26.8; go1.23.5 in the free-running stage)", "stack.ScanSnapshot", "webstack.SnapshotHandler (incl. snapshot(), Aggregate, ToHTML, DefaultOpts with GuessPaths/AnalyzeSources on real sources)"},
		"stubbed_components":  []string{"goroutine population (seeded churn plan inside a synctest bubble)", "http.ResponseWriter (httptest recorder; parking writer as interception point)", "clock (bubble fake clock)"},
		"exhaustive":          false,
	}
	if len(tot.Samples) == 0 {
		cov["samples"] = []any{"(none)"}
	}
	ev := map[string]any{"property_id": "C20", "tier": tier, "seed": seed, "level": "exploration", "coverage": cov, "wall_s": wall, "violations": nviol,
		"assumptions": []string{"dumps are taken only at quiescent points of the bubble (synctest.Wait), where every bubble goroutine is durably blocked; goroutines that block non-durably (mutex, real I/O, syscalls) are exercised only by the free-running -race stage, which is labelled as not simulated", "workloads stay below maxmem (>= 1 MiB): with a truncated dump the handler cannot account for everything and the statement does not ask it to", "wait reasons are compared by prefix: inside a bubble the runtime appends ' (durable)'"}}
	b, _ := json.MarshalIndent(ev, "", " ")
	os.MkdirAll(filepath.Join(dir, "evidence"), 0o755)
	if err := os.WriteFile(filepath.Join(dir, "evidence", "C20.json"), append(b, '\n'), 0o644); err != nil {
		fmt.Fprintln(os.Stderr, "INFRASTRUCTURE:", err)
		return 2
	}
	fmt.Printf("livesim: C20 %s: runs=%d evaluations=%d distinct_nontrivial=%d wall=%.1fs violations=%d\n", tier, tot.Runs, tot.Evals, len(distinct), wall, nviol)
	if rc == 0 && infra > 0 {
		return 2
	}
	return rc
}

func tail(s string, n int) string {
	if len(s) > n {
		return s[len(s)-n:]
	}
	return s
}

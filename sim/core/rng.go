// Package core holds what every engine shares: the PRNG that one integer
// seeds, the global event counter and small helpers. Nothing here reads a
// clock, ranges over a map or touches math/rand's global source.
package core

import (
	"crypto/sha256"
	"encoding/binary"
	"encoding/hex"
)

// Rng is xoshiro256**. It is the only source of choices in the simulator.
type Rng struct {
	s     [4]uint64
	Draws uint64 // number of 64-bit draws, reported as part of the trace
}

func splitmix(x *uint64) uint64 {
	*x += 0x9e3779b97f4a7c15
	z := *x
	z = (z ^ (z >> 30)) * 0xbf58476d1ce4e5b9
	z = (z ^ (z >> 27)) * 0x94d049bb133111eb
	return z ^ (z >> 31)
}

// NewRng seeds a generator from one integer.
func NewRng(seed uint64) *Rng {
	r := &Rng{}
	x := seed
	for i := range r.s {
		r.s[i] = splitmix(&x)
	}
	return r
}

// Mix derives the seed of run i of a named stream from the master seed, so
// runs are independent and can be distributed over processes freely.
func Mix(seed uint64, tag string, i uint64) uint64 {
	h := sha256.New()
	var b [8]byte
	binary.LittleEndian.PutUint64(b[:], seed)
	h.Write(b[:])
	h.Write([]byte(tag))
	binary.LittleEndian.PutUint64(b[:], i)
	h.Write(b[:])
	return binary.LittleEndian.Uint64(h.Sum(nil)[:8])
}

func rotl(x uint64, k uint) uint64 { return (x << k) | (x >> (64 - k)) }

// Uint64 returns the next 64 random bits.
func (r *Rng) Uint64() uint64 {
	r.Draws++
	res := rotl(r.s[1]*5, 7) * 9
	t := r.s[1] << 17
	r.s[2] ^= r.s[0]
	r.s[3] ^= r.s[1]
	r.s[1] ^= r.s[2]
	r.s[0] ^= r.s[3]
	r.s[2] ^= t
	r.s[3] = rotl(r.s[3], 45)
	return res
}

// Intn returns a value in [0,n). n must be > 0.
func (r *Rng) Intn(n int) int {
	if n <= 0 {
		panic("core.Rng.Intn: n <= 0")
	}
	return int(r.Uint64() % uint64(n))
}

// Range returns a value in [lo,hi].
func (r *Rng) Range(lo, hi int) int {
	if hi < lo {
		lo, hi = hi, lo
	}
	return lo + r.Intn(hi-lo+1)
}

// Float64 returns a value in [0,1).
func (r *Rng) Float64() float64 { return float64(r.Uint64()>>11) / (1 << 53) }

// Chance is true with probability p.
func (r *Rng) Chance(p float64) bool { return r.Float64() < p }

// Geom returns a geometrically distributed integer >= 1 with the given mean.
func (r *Rng) Geom(mean float64) int {
	if mean <= 1 {
		return 1
	}
	p := 1 / mean
	n := 1
	for !r.Chance(p) && n < 1<<20 {
		n++
	}
	return n
}

// Perm returns a permutation of 0..n-1.
func (r *Rng) Perm(n int) []int {
	p := make([]int, n)
	for i := range p {
		p[i] = i
	}
	for i := n - 1; i > 0; i-- {
		j := r.Intn(i + 1)
		p[i], p[j] = p[j], p[i]
	}
	return p
}

// Pick returns one of the strings.
func (r *Rng) Pick(s ...string) string { return s[r.Intn(len(s))] }

// Hash is a short content hash used to count distinct things.
func Hash(parts ...[]byte) string {
	h := sha256.New()
	var b [8]byte
	for _, p := range parts {
		binary.LittleEndian.PutUint64(b[:], uint64(len(p)))
		h.Write(b[:])
		h.Write(p)
	}
	return hex.EncodeToString(h.Sum(nil)[:10])
}

// Clock is the global event sequence number of one simulated run.
type Clock struct{ n uint64 }

// Tick returns the next event number.
func (c *Clock) Tick() uint64 { c.n++; return c.n }

// Now returns the number of events so far.
func (c *Clock) Now() uint64 { return c.n }

package gen

import (
	"fmt"
	"strings"

	"verifsim/core"
)

// SimilarCfg tunes the bucket workload: goroutines come in groups that share
// their frames and differ in argument values, sleep time and lock flag, so
// that merges really happen and buckets tie under the ordering.
type SimilarCfg struct {
	Groups    int
	MaxPerGrp int
	// Files are source paths to draw frame locations from (may be real files
	// under a per-run tree). Empty = synthetic paths.
	Files []string
	// Shuffle interleaves the members of different groups.
	Shuffle bool
	// DupIDs lets some goroutines reuse the id of an earlier one (two dumps of
	// different processes pasted with one blank line in between read as one
	// dump and look like that).
	DupIDs bool
}

type slot struct {
	kind int // 0 fixed scalar, 1 varying scalar, 2 varying pointer, 3 shared pointer, 4 aggregate with varying field
	val  uint64
}

// GenerateSimilar draws one goroutine dump made of similar groups.
func GenerateSimilar(r *core.Rng, c SimilarCfg) *Doc {
	if c.Groups < 1 {
		c.Groups = 1
	}
	if c.MaxPerGrp < 1 {
		c.MaxPerGrp = 1
	}
	files := c.Files
	if len(files) == 0 {
		files = []string{"/home/user/go/src/github.com/foo/bar/baz.go", "/home/user/go/src/github.com/foo/qux/baz.go", "/usr/local/go/src/runtime/proc.go", "/home/user/work/app/main.go", "/home/user/work/lib/bar/baz.go"}
	}
	type tmpl struct {
		state   string
		frames  []string // function names
		files   []string
		lines   []int
		slots   [][]slot
		created string
		crFile  string
		crLine  int
	}
	var ts []tmpl
	shared := []uint64{0xc000100000 + uint64(r.Intn(1<<16))*16, 0xc000200000 + uint64(r.Intn(1<<16))*16}
	mk := func() tmpl {
		t := tmpl{state: r.Pick("chan receive", "select", "IO wait", "semacquire", "sleep", "running")}
		nf := r.Range(1, 3)
		for i := 0; i < nf; i++ {
			t.frames = append(t.frames, r.Pick("main", "main", "github.com/foo/bar", "runtime", "github.com/foo/qux", "github.com/foo/bar/vendor/github.com/x/y")+"."+r.Pick("worker", "(*T).Run", "loop", "gopark", "Serve"))
			t.files = append(t.files, files[r.Intn(len(files))])
			t.lines = append(t.lines, r.Range(10, 40))
			var sl []slot
			for j, n := 0, r.Range(0, 4); j < n; j++ {
				sl = append(sl, slot{kind: r.Intn(6), val: uint64(r.Intn(200))})
			}
			t.slots = append(t.slots, sl)
		}
		if r.Chance(0.6) {
			t.created = "main." + r.Pick("main", "start", "spawn")
			t.crFile = files[r.Intn(len(files))]
			t.crLine = r.Range(10, 40)
		}
		return t
	}
	for i := 0; i < c.Groups; i++ {
		if i > 0 && r.Chance(0.35) {
			// a near-copy of an earlier template: same functions and lines (so the
			// buckets tie under the ordering) but something that keeps them apart
			t := ts[r.Intn(len(ts))]
			n := tmpl{state: t.state, frames: append([]string{}, t.frames...), files: append([]string{}, t.files...), lines: append([]int{}, t.lines...), created: t.created, crFile: t.crFile, crLine: t.crLine}
			for _, sl := range t.slots {
				n.slots = append(n.slots, append([]slot{}, sl...))
			}
			switch r.Intn(3) {
			case 0: // a fixed scalar differs
				fi := r.Intn(len(n.slots))
				n.slots[fi] = append(n.slots[fi], slot{kind: 0, val: uint64(r.Intn(9))})
			case 1: // same base name and directory, other parent directory
				fi := r.Intn(len(n.files))
				n.files[fi] = altParent(n.files[fi])
			case 2:
				if n.created != "" {
					n.crLine++
				} else {
					n.created = "main.other"
					n.crFile = files[0]
					n.crLine = 7
				}
			}
			ts = append(ts, n)
			continue
		}
		ts = append(ts, mk())
	}
	var gs []Gor
	id := 0
	for ti, t := range ts {
		nm := r.Range(1, c.MaxPerGrp)
		for m := 0; m < nm; m++ {
			id += r.Range(1, 9)
			gid := id
			if c.DupIDs && len(gs) > 0 && r.Chance(0.3) {
				gid = gs[r.Intn(len(gs))].ID
			}
			st := t.state
			if r.Chance(0.3) {
				st += fmt.Sprintf(", %d minutes", r.Range(1, 90))
			}
			if r.Chance(0.2) {
				st += ", locked to thread"
			}
			g := Gor{ID: gid, Header: fmt.Sprintf("goroutine %d [%s]:", gid, st)}
			for fi := range t.frames {
				var args []string
				for _, sl := range t.slots[fi] {
					switch sl.kind {
					case 0:
						args = append(args, fmt.Sprintf("0x%x", sl.val))
					case 1:
						args = append(args, fmt.Sprintf("0x%x", uint64(r.Intn(6))))
					case 2:
						args = append(args, fmt.Sprintf("0x%x", 0xc000000000+uint64(r.Intn(1<<20))*8))
					case 3:
						args = append(args, fmt.Sprintf("0x%x", shared[r.Intn(len(shared))]))
					case 4:
						args = append(args, fmt.Sprintf("{0x%x, 0x%x}", sl.val, 0xc000000000+uint64(r.Intn(1<<20))*8))
					case 5: // a pointer in some goroutines, nil in others
						if r.Chance(0.5) {
							args = append(args, "0x0")
						} else {
							args = append(args, fmt.Sprintf("0x%x", 0xc000000000+uint64(r.Intn(1<<20))*8))
						}
					}
				}
				g.Frames = append(g.Frames, Frame{
					Func: t.frames[fi] + "(" + strings.Join(args, ", ") + ")",
					File: fmt.Sprintf("\t%s:%d +0x%x", t.files[fi], t.lines[fi], 0x20+ti),
				})
			}
			if t.created != "" {
				g.Created = &Frame{Func: "created by " + t.created, File: fmt.Sprintf("\t%s:%d +0x%x", t.crFile, t.crLine, 0x30+ti)}
			}
			gs = append(gs, g)
		}
	}
	if c.Shuffle {
		p := r.Perm(len(gs))
		ng := make([]Gor, len(gs))
		for i, j := range p {
			ng[i] = gs[j]
		}
		gs = ng
		// ids must stay unique but need not be ordered; keep as drawn
	}
	return &Doc{Items: []Item{{Kind: "junk", Text: "panic: boom\n"}, {Kind: "junk", Text: "\n"}, {Kind: "dump", EOL: "\n", Gors: gs}}}
}

// altParent moves a path under another root, keeping "<dir>/<file>" (what the
// bucket ordering looks at). The result never exists on disk: in particular
// it must not point into the directory tree of another run.
func altParent(p string) string {
	if strings.HasPrefix(p, "/") {
		return "/alt" + p
	}
	return "/alt/" + p
}

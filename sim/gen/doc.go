// Package gen produces the workloads of the simulated runs: streams whose
// structure is known by construction. A Doc is the structured form (so a
// failing run can be shrunk item by item, goroutine by goroutine, frame by
// frame); Render turns it into bytes plus a line map.
package gen

import (
	"bytes"
	"encoding/base64"
	"encoding/json"
	"strings"
	"unicode/utf8"
)

// Frame is a call: the function line and the file line, both without the
// dump's indentation and without end of line.
type Frame struct {
	Func string `json:"f"`
	File string `json:"l"`
	// NoIndent: the function line lacks the dump's uniform indentation (malformed).
	NoIndent bool `json:"noind,omitempty"`
}

// Gor is one goroutine of a goroutine dump.
type Gor struct {
	ID      int     `json:"id"`
	Header  string  `json:"h"`
	Unavail bool    `json:"unavail,omitempty"`
	Frames  []Frame `json:"fr,omitempty"`
	Elided  string  `json:"elided,omitempty"`
	Created *Frame  `json:"created,omitempty"`
}

// RaceSec is one section of a race report: an operation ("Read at …",
// "Previous write at …") or a creation section ("Goroutine N (running) created
// at:").
type RaceSec struct {
	ID     int     `json:"id"`
	Header string  `json:"h"`
	Frames []Frame `json:"fr"`
}

// Item is one piece of a stream.
type Item struct {
	Kind string `json:"k"` // "junk", "dump", "race"
	// junk: exactly one line, including its end of line if it has one.
	Text string `json:"t,omitempty"`
	// dump / race
	Gors   []Gor  `json:"g,omitempty"`
	Indent string `json:"ind,omitempty"`
	EOL    string `json:"eol,omitempty"`
	// IndentBlank: blank lines inside an indented dump carry the indentation.
	IndentBlank bool `json:"indblank,omitempty"`
	// NoEOL: the last line of this item has no end of line (stream end).
	NoEOL bool `json:"noeol,omitempty"`
	// race
	Ops     []RaceSec `json:"ops,omitempty"`
	Creates []RaceSec `json:"cr,omitempty"`
	// NoFooter: the closing separator of the race report is missing (malformed).
	NoFooter bool `json:"nofooter,omitempty"`
	// Damaged: the item was malformed on purpose (gen.Malform); text that
	// follows it may then legitimately be read as its continuation.
	Damaged bool `json:"damaged,omitempty"`
}

// Doc is a whole stream.
type Doc struct {
	Items []Item `json:"items"`
}

// Line classes.
const (
	Junk = iota // pass-through text
	Dump        // a line of a goroutine dump or race report
)

// Line is one line of the rendered stream.
type Line struct {
	Start, End int // End is after the end of line
	Class      int
	Item       int
	Gor        int  // goroutine index within the item (dump) / section index (race); -1 otherwise
	Blank      bool // only an end of line (or indentation + end of line inside a dump)
	Term       bool // has an end of line
}

// DumpInfo locates one dump in the stream.
type DumpInfo struct {
	Item       int
	Race       bool
	Start, End int
	// GorEnd[i]: offset after the last byte of goroutine i's text. For a race
	// report goroutine i is the i-th operation; GorEnd is the end of the later
	// of its operation and creation sections (the point from which it can no
	// longer change).
	GorEnd []int
	// OpEnd[i] (race only): end of the operation section alone.
	OpEnd []int
	IDs   []int
	// FirstLine, LastLine index into Stream.Lines.
	FirstLine, LastLine int
	Indent              string
	// NoFooter: a race report whose closing separator is missing (malformed);
	// like a goroutine dump it then swallows one following blank line.
	NoFooter bool
	Damaged  bool
}

// Stream is a rendered Doc.
type Stream struct {
	Bytes []byte
	Lines []Line
	Dumps []DumpInfo
}

// Render produces the bytes and the maps.
func Render(d *Doc) *Stream {
	s := &Stream{}
	var b bytes.Buffer
	add := func(text string, class, item, gor int, blank bool) {
		st := b.Len()
		b.WriteString(text)
		s.Lines = append(s.Lines, Line{Start: st, End: b.Len(), Class: class, Item: item, Gor: gor, Blank: blank, Term: strings.HasSuffix(text, "\n")})
	}
	for ii := range d.Items {
		it := &d.Items[ii]
		switch it.Kind {
		case "junk":
			t := strings.TrimRight(it.Text, "\r\n")
			add(it.Text, Junk, ii, -1, t == "")
		case "dump":
			eol := it.EOL
			if eol == "" {
				eol = "\n"
			}
			di := DumpInfo{Item: ii, Start: b.Len(), FirstLine: len(s.Lines), Indent: it.Indent, Damaged: it.Damaged}
			var lines []string
			var gors []int
			for gi := range it.Gors {
				g := &it.Gors[gi]
				if gi > 0 {
					if it.IndentBlank {
						lines = append(lines, it.Indent)
					} else {
						lines = append(lines, "")
					}
					gors = append(gors, -2-gi) // blank before goroutine gi
				}
				lines = append(lines, it.Indent+g.Header)
				gors = append(gors, gi)
				if g.Unavail {
					lines = append(lines, it.Indent+"\tgoroutine running on other thread; stack unavailable")
					gors = append(gors, gi)
				}
				for _, f := range g.Frames {
					// an empty Func or File is a line that is missing (malformed dumps)
					if f.Func != "" {
						lines = append(lines, it.Indent+f.Func)
						gors = append(gors, gi)
					}
					if f.File != "" {
						lines = append(lines, it.Indent+f.File)
						gors = append(gors, gi)
					}
				}
				if g.Elided != "" {
					lines = append(lines, it.Indent+g.Elided)
					gors = append(gors, gi)
				}
				if g.Created != nil {
					lines = append(lines, it.Indent+g.Created.Func)
					gors = append(gors, gi)
					if g.Created.File != "" {
						lines = append(lines, it.Indent+g.Created.File)
						gors = append(gors, gi)
					}
				}
			}
			di.GorEnd = make([]int, len(it.Gors))
			for li, l := range lines {
				e := eol
				if li == len(lines)-1 && it.NoEOL {
					e = ""
				}
				gi := gors[li]
				blank := gi < -1
				if blank {
					gi = -1
				}
				add(l+e, Dump, ii, gi, blank)
				if gi >= 0 {
					di.GorEnd[gi] = b.Len()
				}
			}
			for _, g := range it.Gors {
				di.IDs = append(di.IDs, g.ID)
			}
			di.End = b.Len()
			di.LastLine = len(s.Lines) - 1
			s.Dumps = append(s.Dumps, di)
		case "race":
			eol := it.EOL
			if eol == "" {
				eol = "\n"
			}
			di := DumpInfo{Item: ii, Race: true, Start: b.Len(), FirstLine: len(s.Lines), NoFooter: it.NoFooter, Damaged: it.Damaged}
			add("=================="+eol, Dump, ii, -1, false)
			add("WARNING: DATA RACE"+eol, Dump, ii, -1, false)
			di.OpEnd = make([]int, len(it.Ops))
			di.GorEnd = make([]int, len(it.Ops))
			for oi, op := range it.Ops {
				if oi > 0 {
					add(eol, Dump, ii, -1, true)
				}
				add(op.Header+eol, Dump, ii, oi, false)
				for _, f := range op.Frames {
					add(f.Func+eol, Dump, ii, oi, false)
					add(f.File+eol, Dump, ii, oi, false)
				}
				di.OpEnd[oi] = b.Len()
				di.GorEnd[oi] = b.Len()
				di.IDs = append(di.IDs, op.ID)
			}
			for _, cr := range it.Creates {
				add(eol, Dump, ii, -1, true)
				add(cr.Header+eol, Dump, ii, -1, false)
				for _, f := range cr.Frames {
					add(f.Func+eol, Dump, ii, -1, false)
					add(f.File+eol, Dump, ii, -1, false)
				}
				for oi, op := range it.Ops {
					if op.ID == cr.ID {
						di.GorEnd[oi] = b.Len()
						break
					}
				}
			}
			e := eol
			if it.NoEOL {
				e = ""
			}
			if !it.NoFooter {
				add("=================="+e, Dump, ii, -1, false)
			}
			di.End = b.Len()
			di.LastLine = len(s.Lines) - 1
			s.Dumps = append(s.Dumps, di)
		}
	}
	s.Bytes = b.Bytes()
	return s
}

// LineAt returns the index of the line containing offset off (the line whose
// [Start,End) contains it), or len(Lines) at the end of the stream.
func (s *Stream) LineAt(off int) int {
	lo, hi := 0, len(s.Lines)
	for lo < hi {
		m := (lo + hi) / 2
		if s.Lines[m].End <= off {
			lo = m + 1
		} else {
			hi = m
		}
	}
	return lo
}

// Text returns the bytes of line i.
func (s *Stream) Text(i int) []byte { return s.Bytes[s.Lines[i].Start:s.Lines[i].End] }

// SubDoc returns a Doc with only item i (a dump or race report), with a
// terminated last line: "that dump alone".
func SubDoc(d *Doc, i int) *Doc {
	it := d.Items[i]
	it.NoEOL = false
	return &Doc{Items: []Item{it}}
}

// Clone deep-copies a Doc.
func (d *Doc) Clone() *Doc {
	o := &Doc{Items: make([]Item, len(d.Items))}
	for i, it := range d.Items {
		n := it
		n.Gors = make([]Gor, len(it.Gors))
		for j, g := range it.Gors {
			ng := g
			ng.Frames = append([]Frame(nil), g.Frames...)
			if g.Created != nil {
				c := *g.Created
				ng.Created = &c
			}
			n.Gors[j] = ng
		}
		n.Ops = make([]RaceSec, len(it.Ops))
		for j, s := range it.Ops {
			ns := s
			ns.Frames = append([]Frame(nil), s.Frames...)
			n.Ops[j] = ns
		}
		n.Creates = make([]RaceSec, len(it.Creates))
		for j, s := range it.Creates {
			ns := s
			ns.Frames = append([]Frame(nil), s.Frames...)
			n.Creates[j] = ns
		}
		if len(it.Gors) == 0 {
			n.Gors = nil
		}
		if len(it.Ops) == 0 {
			n.Ops = nil
		}
		if len(it.Creates) == 0 {
			n.Creates = nil
		}
		o.Items[i] = n
	}
	return o
}

// itemJSON is Item without methods (for the custom JSON encoding below).
type itemJSON Item

type itemWire struct {
	itemJSON
	// TextB64 carries junk text that is not valid UTF-8 (encoding/json would
	// replace such bytes and the replay would no longer be exact).
	TextB64 string `json:"t_b64,omitempty"`
}

// MarshalJSON keeps arbitrary bytes in junk lines intact.
func (it Item) MarshalJSON() ([]byte, error) {
	w := itemWire{itemJSON: itemJSON(it)}
	if !utf8.ValidString(it.Text) {
		w.TextB64 = base64.StdEncoding.EncodeToString([]byte(it.Text))
		w.itemJSON.Text = ""
	}
	return json.Marshal(w)
}

// UnmarshalJSON is the inverse of MarshalJSON.
func (it *Item) UnmarshalJSON(b []byte) error {
	var w itemWire
	if err := json.Unmarshal(b, &w); err != nil {
		return err
	}
	*it = Item(w.itemJSON)
	if w.TextB64 != "" {
		t, err := base64.StdEncoding.DecodeString(w.TextB64)
		if err != nil {
			return err
		}
		it.Text = string(t)
	}
	return nil
}

package gen

import (
	"fmt"

	"verifsim/core"
)

// Malform damages one dump of the stream in a way the scanner must reject (or
// read differently): the workloads of the differential properties (C09) and of
// conservation (C02) include such streams, because "every input" does. The
// structural oracles (C07, C10) never see them. Returns false if the stream
// has no dump.
func Malform(r *core.Rng, d *Doc) bool {
	var idx []int
	for i, it := range d.Items {
		if it.Kind == "dump" || it.Kind == "race" {
			idx = append(idx, i)
		}
	}
	if len(idx) == 0 {
		return false
	}
	ii := idx[r.Intn(len(idx))]
	it := &d.Items[ii]
	it.Damaged = true
	if it.Kind == "race" {
		switch r.Intn(10) {
		case 8:
			// a file line whose line number no integer holds, in an operation section
			op := &it.Ops[r.Intn(len(it.Ops))]
			op.Frames[r.Intn(len(op.Frames))].File = "      /x/y.go:99999999999999999999 +0x1"
		case 9:
			// ... and in a creation section
			cr := &it.Creates[r.Intn(len(it.Creates))]
			cr.Frames[r.Intn(len(cr.Frames))].File = "      /x/y.go:99999999999999999999 +0x1"
		case 5:
			// a number the header's pattern accepts and no integer can hold: the
			// report is rejected at its first operation, after its two opening lines
			// were withheld
			it.Ops[0].Header = fmt.Sprintf("Read at 0x1%016x by goroutine %d:", r.Intn(1<<30), it.Ops[0].ID)
		case 6:
			it.Ops[0].Header = fmt.Sprintf("Write at 0x00c000012345 by goroutine 9%019d:", r.Intn(1<<30))
		case 7:
			if len(it.Ops) > 1 {
				if r.Chance(0.5) {
					it.Ops[1].Header = fmt.Sprintf("Previous write at 0x1%016x by goroutine %d:", r.Intn(1<<30), it.Ops[1].ID)
				} else {
					it.Ops[1].Header = fmt.Sprintf("Previous read at 0x00c000012345 by goroutine 9%019d:", r.Intn(1<<30))
				}
			} else {
				it.Creates[0].Header = fmt.Sprintf("Goroutine 9%019d (running) created at:", r.Intn(1<<30))
			}
		case 4:
			it.NoFooter = true
			// What follows a footer-less report must not be something the grammar
			// reads as its continuation (a call, a file line, a blank line and then
			// a section header): a line that merely resembles the missing separator,
			// or plain text, is put right behind it.
			l := r.Pick("===================", "================== 3 passed in 0.1s", "==================x", "================== ", "end of report", "--- FAIL: TestX") + "\n"
			rest := append([]Item{{Kind: "junk", Text: l}}, d.Items[ii+1:]...)
			d.Items = append(d.Items[:ii+1:ii+1], rest...)
			return true
		case 0:
			it.Ops[0].Header = "Read at 0xZZ by goroutine 1:"
		case 1:
			it.Creates[0].Header = fmt.Sprintf("Goroutine %d (running) created at:", 999999)
		case 2:
			op := &it.Ops[r.Intn(len(it.Ops))]
			op.Frames[r.Intn(len(op.Frames))].File = ""
		case 3:
			op := &it.Ops[r.Intn(len(it.Ops))]
			op.Frames[0].Func = "  this is not a call line"
		}
		return true
	}
	g := &it.Gors[r.Intn(len(it.Gors))]
	k := r.Intn(8)
	if len(g.Frames) == 0 && k < 5 {
		k = 5 + r.Intn(3)
	}
	if it.Indent != "" && len(g.Frames) > 0 && r.Chance(0.3) {
		// a line of an indented dump that lacks the indentation
		g.Frames[r.Intn(len(g.Frames))].NoIndent = true
		return true
	}
	switch k {
	case 0:
		g.Frames[r.Intn(len(g.Frames))].File = ""
	case 1:
		g.Frames[r.Intn(len(g.Frames))].Func = r.Pick("main.f(0xZZ)", "main.f({0x1)", "main.f(0x1})", "main.f({{{{{{{0x1}}}}}}})", "bad/path(0x1)", "main.f%zz(0x1)")
	case 2:
		g.Frames[r.Intn(len(g.Frames))].Func = ""
	case 3:
		g.Frames[r.Intn(len(g.Frames))].File = "\t/x/y.go:99999999999999999999 +0x1"
	case 4:
		i := r.Intn(len(g.Frames))
		g.Frames = append(g.Frames[:i+1], append([]Frame{{Func: "this line is not part of a goroutine dump", File: ""}}, g.Frames[i+1:]...)...)
	case 5:
		g.Frames = nil
		g.Unavail = false
	case 6:
		g.Created = &Frame{Func: "created by main.f", File: ""}
	case 7:
		g.Created = &Frame{Func: "created by bad/path", File: "\t/x/y.go:1 +0x1"}
	}
	return true
}

// Invalid describes a precise malformation: the scanner must stop exactly at
// one known line (C07: "ends at the first line that cannot continue it; that
// line and everything after it are returned unconsumed").
type Invalid struct {
	Item int `json:"item"` // index of the damaged dump in Doc.Items
	// Marker is a unique text: the stop line is the line containing it
	// (After == false) or the line following that one (After == true).
	Marker  string `json:"marker"`
	After   bool   `json:"after"`
	WantErr bool   `json:"want_error"` // a parse error is reported (else the dump just ends)
	// NoSnapshot: the damage is in the lines that open the dump, so no snapshot
	// is produced for it; the call reports the error and hands the stop line back.
	NoSnapshot bool `json:"no_snapshot,omitempty"`
	// PrevDump: the marker sits in the dump that FOLLOWS the one that must stop
	// (its first line is the stop line).
	PrevDump bool   `json:"prev_dump,omitempty"`
	Kind     string `json:"kind"`
}

// IndentClash: an indented goroutine dump, exactly one blank line, then a line
// that lacks the indentation - plain text or the header of an unindented dump.
// The documented grammar has one indentation per dump: the line cannot
// continue the dump, the call reports the inconsistency and hands the line
// back. Returns nil if the stream has no goroutine dump.
func IndentClash(r *core.Rng, d *Doc, tag int) *Invalid {
	ii := -1
	for i, it := range d.Items {
		if it.Kind == "dump" {
			ii = i
			break
		}
	}
	if ii < 0 {
		return nil
	}
	it := &d.Items[ii]
	if it.Indent == "" {
		it.Indent = r.Pick("    ", "\t", "  ")
	}
	it.NoEOL = false
	eol := it.EOL
	if eol == "" {
		eol = "\n"
	}
	d.Items = d.Items[: ii+1 : ii+1]
	d.Items = append(d.Items, Item{Kind: "junk", Text: eol})
	if r.Chance(0.4) {
		m := fmt.Sprintf("### text without the indentation %d", tag)
		d.Items = append(d.Items, Item{Kind: "junk", Text: m + "\n"}, Item{Kind: "junk", Text: "more text\n"})
		return &Invalid{Item: ii, Marker: m, WantErr: true, Kind: "indented dump: unindented text after its blank separator"}
	}
	// an unindented (or differently indented) dump: a copy of the first one
	cl := (&Doc{Items: []Item{*it}}).Clone().Items[0]
	cl.Indent = ""
	if it.Indent != "\t" && r.Chance(0.3) {
		cl.Indent = "\t"
	}
	id := 900000000 + tag
	cl.Gors[0].ID = id
	cl.Gors[0].Header = fmt.Sprintf("goroutine %d [running]:", id)
	m := cl.Indent + cl.Gors[0].Header
	d.Items = append(d.Items, cl, Item{Kind: "junk", Text: eol}, Item{Kind: "junk", Text: cl.Indent + "the end\n"})
	return &Invalid{Item: ii, Marker: m, WantErr: true, PrevDump: true, Kind: "indented dump: a dump with another indentation after its blank separator"}
}

// MalformPrecise damages one dump so that the stop line is known. Returns nil
// if no suitable dump exists.
func MalformPrecise(r *core.Rng, d *Doc, tag int) *Invalid {
	var idx []int
	for i, it := range d.Items {
		if it.Kind == "race" || (it.Kind == "dump" && it.Indent == "") {
			idx = append(idx, i)
		}
	}
	if len(idx) == 0 {
		return nil
	}
	ii := idx[r.Intn(len(idx))]
	it := &d.Items[ii]
	if it.Kind == "race" {
		if r.Chance(0.25) {
			// the first operation of a report is "Read at"/"Write at"; a report that
			// starts with "Previous …" is rejected at that line
			m := fmt.Sprintf("Previous read at 0x00c0%08x by goroutine %d:", tag, it.Ops[0].ID)
			it.Ops[0].Header = m
			return &Invalid{Item: ii, Marker: m, WantErr: true, NoSnapshot: true, Kind: "race: report starting with a 'Previous' operation"}
		}
		if r.Chance(0.5) {
			m := fmt.Sprintf("Previous write at 0x00c0%08x by goroutine %d:", tag, it.Ops[0].ID)
			it.Creates = append(it.Creates, RaceSec{ID: -1, Header: m, Frames: []Frame{{Func: "  main.f()", File: "      /x/y.go:1 +0x1"}}})
			return &Invalid{Item: ii, Marker: m, WantErr: true, Kind: "race: operation section after a creation section"}
		}
		m := fmt.Sprintf("Goroutine %d (running) created at:", 900000000+tag)
		it.Creates = append(it.Creates, RaceSec{ID: -1, Header: m, Frames: []Frame{{Func: "  main.f()", File: "      /x/y.go:1 +0x1"}}})
		return &Invalid{Item: ii, Marker: m, WantErr: true, Kind: "race: creation section of an unknown goroutine"}
	}
	// goroutine dump: pick a goroutine with frames
	var gs []int
	for gi, g := range it.Gors {
		if len(g.Frames) > 0 && !g.Unavail {
			gs = append(gs, gi)
		}
	}
	if len(gs) == 0 {
		return nil
	}
	gi := gs[r.Intn(len(gs))]
	g := &it.Gors[gi]
	fi := r.Intn(len(g.Frames))
	if r.Chance(0.5) {
		m := fmt.Sprintf("### not a dump line %d", tag)
		g.Frames = append(g.Frames[:fi+1], append([]Frame{{Func: m}}, g.Frames[fi+1:]...)...)
		return &Invalid{Item: ii, Marker: m, Kind: "goroutine dump: foreign line between frames"}
	}
	// a function line without its file line; something must follow it
	follows := fi < len(g.Frames)-1 || g.Elided != "" || g.Created != nil || gi < len(it.Gors)-1
	if !follows {
		return nil
	}
	m := fmt.Sprintf("main.verifNoFile%d(0x1)", tag)
	g.Frames[fi] = Frame{Func: m}
	return &Invalid{Item: ii, Marker: m, After: true, WantErr: true, Kind: "goroutine dump: function line without file line"}
}

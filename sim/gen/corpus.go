package gen

import (
	"embed"
	"sort"
)

// A small literal corpus of real dumps: cmd/panic of the tree under test run
// with go1.23.5 and go1.26.8 (GOTRACEBACK=all/system/single) and a real -race
// report. Captured once; committed under gen/testdata/real.
//
//go:embed testdata/real/*.txt
var corpusFS embed.FS

// CorpusEntry is one captured output.
type CorpusEntry struct {
	Name string
	Data []byte
}

// Corpus returns the captured outputs in name order.
func Corpus() []CorpusEntry {
	ents, err := corpusFS.ReadDir("testdata/real")
	if err != nil {
		return nil
	}
	var out []CorpusEntry
	for _, e := range ents {
		b, err := corpusFS.ReadFile("testdata/real/" + e.Name())
		if err == nil {
			out = append(out, CorpusEntry{Name: e.Name(), Data: b})
		}
	}
	sort.Slice(out, func(i, j int) bool { return out[i].Name < out[j].Name })
	return out
}

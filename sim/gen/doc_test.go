package gen

import (
	"bytes"
	"encoding/json"
	"testing"

	"verifsim/core"
)

// The replay format must be lossless: a Doc survives a JSON round trip byte
// for byte, including junk lines that are not valid UTF-8.
func TestDocJSONRoundTrip(t *testing.T) {
	for i := 0; i < 300; i++ {
		r := core.NewRng(uint64(i))
		c := DefaultCfg(r)
		c.Binary = true
		d := Generate(r, c)
		b, err := json.Marshal(d)
		if err != nil {
			t.Fatal(err)
		}
		var d2 Doc
		if err := json.Unmarshal(b, &d2); err != nil {
			t.Fatal(err)
		}
		if !bytes.Equal(Render(d).Bytes, Render(&d2).Bytes) {
			t.Fatalf("seed %d: round trip changes the stream", i)
		}
	}
}
